// C13: blocks a node produces are valid everywhere and replay to the producer's state.
package main

import (
	"bytes"
	"fmt"
	"math/rand"
	"runtime/debug"
	"strings"

	pb "github.com/xuperchain/xupercore/bcs/ledger/xledger/xldgpb"
	"github.com/xuperchain/xupercore/protos"

	"verif/ev"
	"verif/gen"
	"verif/hist"
	"verif/refmodel"
	sn "verif/simnode"
)

func main() {
	r := ev.Start("C13", "exploration",
		"producer = node opened on canon(B) of a generated chain; pool of 1-30 transactions (honest transfers / fees / contract calls, dependency chains, diamonds, read-only sharers of a key "+
			"followed by a writer, readers + overwriters, big transactions that hit the block size limit, a timer task due at the next height); order oracle on 8 calls of GetUnconfirmedTx "+
			"(producer before consumer for token and key inputs, reader before overwriter); then one block is packed exactly as miner.packBlock does and checked: VerifyBlock, IsValidTx, "+
			"replica A (never saw the pool) confirm+Walk, replica B confirm+Play, producer ConfirmBlock+PlayForMiner, all three states equal (leftover pool re-submitted on the replicas); "+
			"case = one pool; distinct by tx-kind sequence; non-trivial = pool has >= 2 dependent or key-sharing transactions")
	defer sn.CleanupScratch()
	n := r.N(220, 6000)
	for c := 0; c < n; c++ {
		one(r, c)
	}
	for m := 0; m < r.N(6, 80); m++ {
		marathon(r, m)
	}
	for c := 0; c < r.N(8, 120); c++ {
		cluster(r, c)
	}
	r.Floor("cluster.blocks", 60)
	r.Floor("cluster.convergences", 10)
	r.Floor("cluster.catch-ups-over-the-network", 5)
	truncRounds(r)
	r.Floor("trunc-rounds.blocks", 60)
	r.Floor("trunc-rounds.truncations", 10)
	r.Floor("trunc-rounds.chains-replayed", 8)
	r.Floor("marathon.blocks", 60)
	r.Floor("marathon.blocks-leaving-pool-behind", 5)
	r.Floor("marathon.follower-restarts", 5)
	r.Floor("marathon.write-error-at-admission", 10)
	r.Floor("pools", 150)
	r.Floor("order.calls", 1000)
	r.Floor("order.pairs.dep", 500)
	r.Floor("order.pairs.antidep", 50)
	r.Floor("replay.walk.ok", 100)
	r.Floor("replay.play.ok", 100)
	r.Floor("pool.sizelimit.cut", 3)
	r.Floor("pool.with-timer", 3)
	r.Floor("replay.with-timer.ok", 2)
	r.Assume("blocks are assembled by the engine's real miner.packBlock / confirmBlockForMiner and received through the real Miner.ProcBlock (verif export shims); consensus callbacks are a null consensus")
	r.Finish()
}

type poolTx struct {
	tx   *pb.Transaction
	kind string
}

func one(r *ev.Run, c int) {
	rng := rand.New(rand.NewSource(r.Seed*15485863 + int64(c)))
	var ops []string
	defer func() {
		if p := recover(); p != nil {
			if inc, ok := p.(sn.Inconclusive); ok {
				r.Inconclusive(fmt.Sprintf("case %d: %s", c, inc.Why))
				return
			}
			r.Violation("panic|"+strings.SplitN(fmt.Sprint(p), "\n", 2)[0], fmt.Sprintf("panic in case %d: %v\n%s", c, p, debug.Stack()),
				map[string]interface{}{"case": c, "ops": ops})
		}
	}()
	o := gen.DefaultOpts()
	o.Linear = true
	o.MaxBlocks = 4
	sizeCase := c%12 == 7
	timerCase := c%12 == 3
	if sizeCase {
		o.Cfg.MaxBlockMB = 1
	}
	t, err := gen.NewTree(o)
	if err != nil {
		r.Inconclusive(err.Error())
		return
	}
	defer t.Drop()
	nb := rng.Intn(4)
	for i := 0; i < nb; i++ {
		if _, err := t.AddBlock(rng, len(t.Blocks)-1, rng.Intn(4), nil); err != nil {
			r.Violation("generator|fresh-replay-failed", err.Error(), map[string]interface{}{"case": c})
			return
		}
	}
	base := len(t.Blocks) - 1
	if timerCase {
		// a block carrying a timer registration due at the height of the block we are going to pack
		a, err := t.Author(base)
		if err != nil {
			return
		}
		due := t.Blocks[base].Height + 2
		prog := (&sn.ProgBuilder{}).Put("vb0", []byte("a"), []byte("timer")).Get("vb0", []byte("b")).String()
		trig := fmt.Sprintf(`{"module":"xkernel","contract":"%s","method":"timer","args":{"prog":%q}}`, sn.VerifContract, prog)
		k := sn.K(1)
		req := &protos.InvokeRequest{ModuleName: "xkernel", ContractName: "$timer_task", MethodName: "Add",
			Args: map[string][]byte{"block_height": []byte(fmt.Sprint(due)), "trigger": []byte(trig)}}
		res, err := a.PreExec([]*protos.InvokeRequest{req}, k.Address, []string{k.Address})
		if err == nil {
			x, _ := sn.BuildTx(sn.TxSpec{Initiator: k.Address, Signers: []*sn.Key{k}, Nonce: fmt.Sprintf("timer%d", c), Timestamp: 77,
				InExt: res.Inputs, OutExt: res.Outputs, Requests: res.Requests})
			a.Drop()
			if _, err := t.AddBlock(rng, base, 0, []*pb.Transaction{x}); err != nil {
				r.Violation("generator|fresh-replay-failed", "timer registration block: "+err.Error(), map[string]interface{}{"case": c})
				return
			}
			base = len(t.Blocks) - 1
			if len(t.Blocks[base].Block.Transactions) < 2 {
				timerCase = false // registration was not admitted
			}
		} else {
			a.Drop()
			timerCase = false
		}
	}
	p, err := t.Author(base)
	if err != nil {
		r.Inconclusive(err.Error())
		return
	}
	defer p.Drop()
	ps := hist.WrapCrashed(p, t)
	var pool []poolTx
	submit := func(x *pb.Transaction, kind string) bool {
		if x == nil {
			return false
		}
		if ok, err := p.State.VerifyTx(x); !ok || err != nil {
			return false
		}
		if err := p.State.DoTx(sn.CloneTx(x)); err != nil {
			return false
		}
		pool = append(pool, poolTx{x, kind})
		return true
	}
	want := 1 + rng.Intn(30)
	if sizeCase {
		want = 8 + rng.Intn(4)
	}
	for tries := 0; len(pool) < want && tries < want*3; tries++ {
		switch {
		case sizeCase:
			x, kind, _ := t.GenTx(rng, p)
			if x != nil {
				// re-sign with a description of mixed size (0 .. 600 kB; the limit is 0.8 MB per block):
				// the first transaction that does not fit is usually followed by smaller ones, some of
				// which spend its outputs
				k := sn.KeyByAddr(x.Initiator)
				sz := []int{600, 0, 300, 150, 0, 450, 1, 150}[rng.Intn(8)]
				if sz > 0 {
					x.Desc = bytes.Repeat([]byte{byte('a' + tries%26)}, sz*1024)
				}
				if sn.SignTx(x, []*sn.Key{k}, false) == nil {
					x, _ = sn.Wire(x)
					submit(x, fmt.Sprintf("%s+desc%dk", kind, sz))
				}
			}
		case rng.Intn(3) == 0:
			fam := []string{"kv-rw", "kv-rr", "chain-out-of-order", "diamond", "kv-rw", "stale-after-write"}[rng.Intn(6)]
			for i, x := range ps.Family(rng, fam) {
				if x == nil {
					continue
				}
				submit(x, fmt.Sprintf("%s#%d", fam, i))
			}
		default:
			x, kind, _ := t.GenTx(rng, p)
			submit(x, kind)
		}
	}
	if len(pool) == 0 {
		return
	}
	kinds := []string{}
	for _, q := range pool {
		kinds = append(kinds, q.kind)
	}
	ops = kinds
	shape := fmt.Sprintf("base%d|%s", nb, strings.Join(kinds, ","))
	r.Count("pools", 1)
	r.Count("pool.txs", len(pool))
	if timerCase {
		r.Count("pool.with-timer", 1)
	}

	// ---- order oracle ----
	type dep struct{ before, after string }
	var deps, antis []dep
	inPool := map[string]bool{}
	for _, q := range pool {
		inPool[string(q.tx.Txid)] = true
	}
	readers := map[string][]string{} // "bucket/key@version" -> txids that read it
	for _, q := range pool {
		id := string(q.tx.Txid)
		for _, in := range q.tx.TxInputs {
			if inPool[string(in.RefTxid)] {
				deps = append(deps, dep{string(in.RefTxid), id})
			}
		}
		for _, in := range q.tx.TxInputsExt {
			if inPool[string(in.RefTxid)] {
				deps = append(deps, dep{string(in.RefTxid), id})
			}
			rk := in.Bucket + "/" + string(in.Key) + "@" + refmodel.Version(in.RefTxid, in.RefOffset)
			readers[rk] = append(readers[rk], id)
		}
	}
	for _, q := range pool {
		id := string(q.tx.Txid)
		cited := map[string]string{}
		for _, in := range q.tx.TxInputsExt {
			cited[in.Bucket+"/"+string(in.Key)] = refmodel.Version(in.RefTxid, in.RefOffset)
		}
		for _, out := range q.tx.TxOutputsExt {
			if out.Bucket == refmodel.TransientBucket {
				continue
			}
			k := out.Bucket + "/" + string(out.Key)
			for _, rd := range readers[k+"@"+cited[k]] {
				if rd != id {
					antis = append(antis, dep{rd, id}) // reader before overwriter
				}
			}
		}
	}
	orderBad := false
	orders := map[string]bool{}
	for call := 0; call < 8; call++ {
		list, err := p.State.GetUnconfirmedTx(false)
		if err != nil {
			r.Violation("pool-order|error", "GetUnconfirmedTx: "+err.Error(), map[string]interface{}{"case": c, "pool": kinds})
			return
		}
		r.Count("order.calls", 1)
		pos := map[string]int{}
		sig := []string{}
		for i, x := range list {
			pos[string(x.Txid)] = i
			sig = append(sig, sn.Short(x.Txid))
		}
		orders[strings.Join(sig, ",")] = true
		if len(list) != len(pool) {
			r.Violation("pool-order|lost-transaction", fmt.Sprintf("pool has %d admitted transactions, GetUnconfirmedTx yields %d", len(pool), len(list)),
				map[string]interface{}{"case": c, "pool": kinds})
			return
		}
		for _, d := range deps {
			r.Count("order.pairs.dep", 1)
			if pos[d.before] > pos[d.after] {
				r.Violation("pool-order|consumer-before-producer", fmt.Sprintf("pool order puts %x before the transaction %x whose output / key version it consumes; pool: %v",
					[]byte(d.after)[:4], []byte(d.before)[:4], kinds), map[string]interface{}{"case": c, "seed": r.Seed, "pool": kinds})
				return
			}
		}
		for _, d := range antis {
			r.Count("order.pairs.antidep", 1)
			if pos[d.before] > pos[d.after] {
				orderBad = true
				r.Violation("pool-order|overwriter-before-reader", fmt.Sprintf(
					"pool order puts overwriter %x before %x, which read the key version it supersedes (position %d < %d); pool: %v",
					[]byte(d.after)[:4], []byte(d.before)[:4], pos[d.after], pos[d.before], kinds), map[string]interface{}{"case": c, "seed": r.Seed, "pool": kinds})
				break
			}
		}
		if orderBad {
			break
		}
	}
	r.Count("order.distinct", len(orders))
	r.Case(shape, len(deps)+len(antis) >= 1)
	if c < 3 {
		r.Sample(map[string]interface{}{"case": c, "base_blocks": nb, "pool": kinds, "deps": len(deps), "antideps": len(antis)})
	}
	if orderBad {
		return // taint control: a block packed from such an order is the same finding
	}

	// ---- pack, verify, replay ----
	blk, err := p.PackBlock(sn.K(0), int64(5000000+c))
	if err != nil {
		r.Violation("pack|failed", "packBlock failed: "+err.Error(), map[string]interface{}{"case": c, "pool": kinds})
		return
	}
	packed := len(blk.Transactions) - 1
	hasAuto := false
	for _, x := range blk.Transactions {
		if x.Autogen {
			hasAuto = true
			packed--
		}
	}
	if packed < len(pool) {
		r.Count("pool.sizelimit.cut", 1)
	}
	if timerCase && !hasAuto {
		r.Count("timer.not-due", 1)
	}
	wire := sn.WireBlock(blk)
	if ok, _ := p.Ledger.VerifyBlock(wire, "c13"); !ok {
		r.Violation("produced-block|verify-block-false", "VerifyBlock rejects a block the node formatted itself", map[string]interface{}{"case": c, "pool": kinds})
		return
	}
	for i, x := range wire.Transactions {
		if !p.Ledger.IsValidTx(i, x, wire) {
			r.Violation("produced-block|invalid-tx", fmt.Sprintf("IsValidTx false for tx %d of the produced block", i), map[string]interface{}{"case": c, "pool": kinds})
			return
		}
	}
	if !wire.Transactions[0].Coinbase {
		r.Violation("produced-block|award-not-first", "first transaction is not the award", map[string]interface{}{"case": c})
		return
	}
	var leftover []*pb.Transaction
	inBlock := map[string]bool{}
	for _, x := range wire.Transactions {
		inBlock[string(x.Txid)] = true
	}
	replica := func(how string) (*sn.Node, bool) {
		rp, err := t.Author(base)
		if err != nil {
			r.Inconclusive(err.Error())
			return nil, false
		}
		if st := rp.Confirm(wire); !st.Succ {
			r.Violation("replica|confirm-failed", fmt.Sprintf("replica ledger refuses the produced block: %v", st.Error), map[string]interface{}{"case": c, "pool": kinds})
			rp.Drop()
			return nil, false
		}
		var err2 error
		if how == "walk" {
			err2 = rp.Walk(wire.Blockid, false)
		} else {
			err2 = rp.State.Play(wire.Blockid)
		}
		if err2 != nil {
			cls := how + "-failed|general"
			if hasAuto && timerKeysTouchedByPool(wire) {
				// structural precondition of the known finding: the timer transaction was computed on
				// the producer's live state, which already contains the effects of pool transactions
				// that the block orders AFTER the timer transaction
				cls = "replay-failed|timer-tx-computed-on-pool-state"
			} else if hasAuto {
				cls = how + "-failed|with-timer-tx"
			}
			r.Violation("replica|"+cls, fmt.Sprintf("a replica that never saw the pool cannot %s the produced block: %v; log: %v; pool: %v",
				how, err2, rp.Log.Tail(3), kinds), map[string]interface{}{"case": c, "seed": r.Seed, "pool": kinds})
			rp.Drop()
			return nil, false
		}
		r.Count("replay."+how+".ok", 1)
		if hasAuto {
			r.Count("replay.with-timer.ok", 1)
		}
		return rp, true
	}
	ra, ok := replica("walk")
	if !ok {
		return
	}
	defer ra.Drop()
	rb, ok := replica("play")
	if !ok {
		return
	}
	defer rb.Drop()
	// producer side
	list, _ := p.State.GetUnconfirmedTx(false)
	for _, x := range list {
		if !inBlock[string(x.Txid)] {
			leftover = append(leftover, x)
		}
	}
	if err := p.ConfirmForMiner(blk); err != nil {
		r.Violation("producer|confirm-for-miner-failed", err.Error(), map[string]interface{}{"case": c, "pool": kinds})
		return
	}
	// leftover pool transactions (size limit) are still pending on the producer: submit them on the replicas
	for _, rp := range []*sn.Node{ra, rb} {
		pend := leftover
		for len(pend) > 0 {
			var next []*pb.Transaction
			for _, x := range pend {
				y := sn.CloneTx(x)
				if rp.State.DoTx(y) != nil {
					next = append(next, x)
				}
			}
			if len(next) == len(pend) {
				r.Violation("producer|leftover-pool-invalid", fmt.Sprintf("%d transactions left in the producer's pool after mining are refused by a replica at the same block", len(next)),
					map[string]interface{}{"case": c, "pool": kinds})
				return
			}
			pend = next
		}
	}
	ids := [][]byte{}
	for _, x := range wire.Transactions {
		ids = append(ids, x.Txid)
	}
	po := sn.ObserveOpt(p, sn.ObsOpt{Txids: ids})
	for name, rp := range map[string]*sn.Node{"walk": ra, "play": rb} {
		if d := po.Diff(sn.ObserveOpt(rp, sn.ObsOpt{Txids: ids})); len(d) > 0 {
			if len(d) > 6 {
				d = d[:6]
			}
			r.Violation("replica|state-differs|"+name, fmt.Sprintf("producer vs replica(%s) after the produced block: %s; pool: %v", name, strings.Join(d, " ;; "), kinds),
				map[string]interface{}{"case": c, "seed": r.Seed, "pool": kinds})
			return
		}
	}
	r.Count("replay.state.equal", 1)
}

// timerKeysTouchedByPool: does a non-autogen transaction of the block read or write a key
// that the block's timer transaction reads or writes?
func timerKeysTouchedByPool(b *pb.InternalBlock) bool {
	keys := map[string]bool{}
	for _, x := range b.Transactions {
		if x.Autogen {
			for _, in := range x.TxInputsExt {
				keys[in.Bucket+"/"+string(in.Key)] = true
			}
			for _, out := range x.TxOutputsExt {
				keys[out.Bucket+"/"+string(out.Key)] = true
			}
		}
	}
	for _, x := range b.Transactions {
		if x.Autogen || x.Coinbase {
			continue
		}
		for _, in := range x.TxInputsExt {
			if keys[in.Bucket+"/"+string(in.Key)] {
				return true
			}
		}
		for _, out := range x.TxOutputsExt {
			if keys[out.Bucket+"/"+string(out.Key)] {
				return true
			}
		}
	}
	return false
}
