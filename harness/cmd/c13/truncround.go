package main

import (
	"fmt"
	"math/rand"
	"strings"

	pb "github.com/xuperchain/xupercore/bcs/ledger/xledger/xldgpb"

	"verif/ev"
	"verif/gen"
	sn "verif/simnode"
)

// truncRounds: whole production rounds of the engine's real miner (Miner.mining) on a chain
// whose award halves every few blocks, with the consensus ordering a truncation before some
// rounds (roll back 1-3 blocks, then produce on the truncated tip). Every block of the producer's
// final main chain must be accepted and applied, in order, by a node that never saw anything else
// (the engine's receive path: award rule, verification, ConfirmBlock, Walk), which must end in the
// producer's state; blocks produced right after a truncation carry the award and the timer
// transaction of THEIR height.
func truncRounds(r *ev.Run) {
	for ci := 0; ci < r.N(10, 120); ci++ {
		func() {
			var ops []string
			defer func() {
				if p := recover(); p != nil {
					if inc, ok := p.(sn.Inconclusive); ok {
						r.Inconclusive("trunc rounds: " + inc.Why)
						return
					}
					r.Violation("panic|trunc-rounds", fmt.Sprintf("panic in case %d: %v", ci, p), map[string]interface{}{"case": ci, "ops": ops})
				}
			}()
			rng := rand.New(rand.NewSource(r.Seed*9176 + int64(ci)))
			o := gen.DefaultOpts()
			o.Cfg.Award = "1000000"
			o.Cfg.DecayGap = int64(2 + ci%3)
			o.Cfg.DecayRatio = 0.5
			t, err := gen.NewTree(o)
			if err != nil {
				r.Inconclusive(err.Error())
				return
			}
			defer t.Drop()
			p, err := t.Author(0)
			if err != nil {
				r.Inconclusive(err.Error())
				return
			}
			defer p.Drop()
			cons := &sn.TruncatingConsensus{}
			p.Consensus = cons
			rounds := 8 + rng.Intn(6)
			for round := 1; round <= rounds; round++ {
				for i := 0; i < rng.Intn(3); i++ {
					if x, _, _ := t.GenTx(rng, p); x != nil {
						if ok, _ := p.State.VerifyTx(x); ok && p.State.DoTx(sn.CloneTx(x)) == nil {
							ops = append(ops, fmt.Sprintf("r%d:submit", round))
						}
					}
				}
				h := p.LedgerHeight()
				if h >= 3 && rng.Intn(3) == 0 {
					back := int64(1 + rng.Intn(3))
					if back > h-1 {
						back = h - 1
					}
					tb, err := p.Ledger.QueryBlockByHeight(h - back)
					if err == nil {
						cons.Target = tb.Blockid
						ops = append(ops, fmt.Sprintf("r%d:consensus-orders-truncation(%d->%d)", round, h, h-back))
						r.Count("trunc-rounds.truncations", 1)
					}
				}
				b, err := p.Mine(sn.K(0))
				if err != nil {
					r.Violation("trunc-rounds|production-round-failed", fmt.Sprintf("round %d: Miner.mining failed: %v; log %v; ops %v", round, err, p.Log.Tail(4), ops),
						map[string]interface{}{"case": ci, "ops": ops})
					return
				}
				ops = append(ops, fmt.Sprintf("r%d:mined(h%d,%dtx)", round, b.Height, len(b.Transactions)))
				r.Count("trunc-rounds.blocks", 1)
				if string(p.StateTip()) != string(b.Blockid) {
					r.Violation("trunc-rounds|producer-not-on-its-own-block", fmt.Sprintf("round %d: after a production round the state is not on the produced block; ops %v", round, ops),
						map[string]interface{}{"case": ci, "ops": ops})
					return
				}
			}
			// drain the pool (pending transactions show in the producer's tables, the replica has none)
			for k := 0; k < 8; k++ {
				pool, _ := p.State.GetUnconfirmedTx(false)
				if len(pool) == 0 {
					break
				}
				if _, err := p.Mine(sn.K(0)); err != nil {
					r.Violation("trunc-rounds|production-round-failed", fmt.Sprintf("draining round: Miner.mining failed: %v; log %v; ops %v", err, p.Log.Tail(4), ops),
						map[string]interface{}{"case": ci, "ops": ops})
					return
				}
				ops = append(ops, "drain")
			}
			if pool, _ := p.State.GetUnconfirmedTx(false); len(pool) > 0 {
				r.Count("trunc-rounds.pool-not-drained", 1)
				return
			}
			// the final main chain, oldest first
			var chain []*pb.InternalBlock
			for h := int64(1); h <= p.LedgerHeight(); h++ {
				b, err := p.Ledger.QueryBlockByHeight(h)
				if err != nil {
					r.Violation("trunc-rounds|main-chain-unreadable", fmt.Sprintf("QueryBlockByHeight(%d): %v; ops %v", h, err, ops), map[string]interface{}{"case": ci, "ops": ops})
					return
				}
				chain = append(chain, sn.WireBlock(b))
			}
			f, err := t.Author(0)
			if err != nil {
				r.Inconclusive(err.Error())
				return
			}
			defer f.Drop()
			for _, b := range chain {
				if err := f.ProcBlock(b); err != nil {
					r.Violation("replica|procblock-failed|after-consensus-truncation", fmt.Sprintf("a node that saw nothing else refuses block %x (height %d) of the producer's main chain: %v; log %v; ops %v",
						b.Blockid[:4], b.Height, err, f.Log.Tail(4), ops), map[string]interface{}{"case": ci, "ops": ops})
					return
				}
				if string(f.StateTip()) != string(b.Blockid) {
					r.Violation("replica|procblock-did-not-apply|after-consensus-truncation", fmt.Sprintf("a node that saw nothing else accepted block %x (height %d) but its state is not on it; log %v; ops %v",
						b.Blockid[:4], b.Height, f.Log.Tail(4), ops), map[string]interface{}{"case": ci, "ops": ops})
					return
				}
			}
			r.Count("trunc-rounds.chains-replayed", 1)
			if d := sn.ObserveOpt(p, sn.ObsOpt{SkipPool: true}).Diff(sn.ObserveOpt(f, sn.ObsOpt{SkipPool: true})); len(d) > 0 {
				if len(d) > 6 {
					d = d[:6]
				}
				r.Violation("replica|state-differs|after-consensus-truncation", fmt.Sprintf("producer vs a node that replayed its main chain: %s; ops %v", strings.Join(d, " ;; "), ops),
					map[string]interface{}{"case": ci, "ops": ops})
				return
			}
			r.Case(fmt.Sprintf("trunc-rounds|%d", len(ops)), true)
		}()
	}
}
