package main

// Marathon: ONE long-lived producer mines many consecutive blocks from a pool that keeps being
// refilled (children of transactions the size limit left behind included), on a chain whose award
// decays every two blocks. Every block is offered to a long-lived follower (the engine's receive
// path: VerifyBlock, IsValidTx for every transaction, ConfirmBlock, Walk) that is restarted now
// and then, and to a fresh twin of the follower with cold caches. Whatever the producer has
// cached, skipped or left in its pool in earlier rounds must not show in later blocks.

import (
	"bytes"
	"fmt"
	"math/rand"
	"strings"

	pb "github.com/xuperchain/xupercore/bcs/ledger/xledger/xldgpb"

	"verif/ev"
	"verif/gen"
	sn "verif/simnode"
)

func marathon(r *ev.Run, idx int) {
	rng := rand.New(rand.NewSource(r.Seed*6151 + int64(idx)))
	var ops []string
	defer func() {
		if p := recover(); p != nil {
			if inc, ok := p.(sn.Inconclusive); ok {
				r.Inconclusive(inc.Why)
				return
			}
			r.Violation("panic|marathon", fmt.Sprintf("panic in marathon %d: %v", idx, p), map[string]interface{}{"marathon": idx, "ops": ops})
		}
	}()
	o := gen.DefaultOpts()
	o.Cfg.MaxBlockMB = 1
	o.Cfg.Award = "1000000"
	o.Cfg.DecayGap = 2
	o.Cfg.DecayRatio = 0.5
	t, err := gen.NewTree(o)
	if err != nil {
		r.Inconclusive(err.Error())
		return
	}
	defer t.Drop()
	p, err := t.Author(0)
	if err != nil {
		r.Inconclusive(err.Error())
		return
	}
	defer func() { p.Drop() }()
	f, err := t.Author(0)
	if err != nil {
		r.Inconclusive(err.Error())
		return
	}
	defer func() { f.Drop() }()
	var confirmedEarlier []*pb.Transaction
	rounds := 22 + rng.Intn(6)
	for round := 1; round <= rounds; round++ {
		// refill the producer's pool: 0..5 transactions, some of them big (the limit is 0.8 MB)
		n := rng.Intn(6)
		for i := 0; i < n; i++ {
			x, kind, _ := t.GenTx(rng, p)
			if x == nil {
				continue
			}
			if sz := []int{0, 0, 0, 150, 300, 450, 700}[rng.Intn(7)]; sz > 0 {
				k := sn.KeyByAddr(x.Initiator)
				x.Desc = bytes.Repeat([]byte{byte('a' + i)}, sz*1024)
				if sn.SignTx(x, []*sn.Key{k}, false) != nil {
					continue
				}
				x, _ = sn.Wire(x)
				kind += fmt.Sprintf("+desc%dk", sz)
			}
			if ok, _ := p.State.VerifyTx(x); !ok {
				continue
			}
			if p.State.DoTx(sn.CloneTx(x)) == nil {
				ops = append(ops, fmt.Sprintf("r%d:submit(%s)", round, kind))
				r.Count("marathon.submitted", 1)
			}
		}
		// now and then a client sends a transaction again that an earlier block has confirmed (a
		// retry, a replay): refused or not, what the node packs next must still be a valid block
		if len(confirmedEarlier) > 0 && rng.Intn(3) == 0 {
			x := confirmedEarlier[rng.Intn(len(confirmedEarlier))]
			c := sn.CloneTx(x)
			c.Blockid = nil
			var err error
			if rng.Intn(2) == 0 {
				err = p.SubmitTx(c) // within the engine's 120 s duplicate-id cache
			} else if ok, verr := p.State.VerifyTx(c); !ok || verr != nil { // the cache has expired / the node was restarted
				err = fmt.Errorf("verify: %v", verr)
			} else {
				err = p.State.DoTx(c)
			}
			if err == nil {
				r.Count("marathon.resubmitted-confirmed.admitted", 1)
			} else {
				r.Count("marathon.resubmitted-confirmed.refused", 1)
			}
			ops = append(ops, fmt.Sprintf("r%d:resubmit-confirmed=%v", round, err == nil))
		}
		poolBefore, _ := p.State.GetUnconfirmedTx(false)
		blk, err := p.PackBlock(sn.K(0), int64(7000000+idx*1000+round))
		if err != nil {
			r.Violation("pack|failed", "packBlock failed: "+err.Error(), map[string]interface{}{"marathon": idx, "round": round, "ops": ops})
			return
		}
		wire := sn.WireBlock(blk)
		packed := len(wire.Transactions) - 1
		ops = append(ops, fmt.Sprintf("r%d:pack(%d of %d)", round, packed, len(poolBefore)))
		if packed < len(poolBefore) {
			r.Count("marathon.blocks-leaving-pool-behind", 1)
			if len(poolBefore)-packed == 1 {
				r.Count("marathon.blocks-leaving-exactly-one-behind", 1)
			}
		}
		// ---- the follower's receive path ----
		receive := func(node *sn.Node, who string) bool {
			// the engine's real entry for a block received from a peer
			if err := node.ProcBlock(wire); err != nil {
				// name the step that objects (same calls, for the message only)
				step := "walk / consensus"
				if ok, _ := node.Ledger.VerifyBlock(wire, "c13m"); !ok {
					step = "VerifyBlock"
				}
				for i, x := range wire.Transactions {
					if !node.Ledger.IsValidTx(i, x, wire) {
						step = fmt.Sprintf("IsValidTx(%d)", i)
						if i == 0 {
							step = fmt.Sprintf("IsValidTx(award: block carries %x at height %d)", x.TxOutputs[0].Amount, wire.Height)
						}
						break
					}
				}
				r.Violation("replica|procblock-failed|"+who, fmt.Sprintf("round %d: the %s's engine refuses the produced block: %v (objecting step: %s); log %v", round, who, err, step, node.Log.Tail(3)),
					map[string]interface{}{"marathon": idx, "round": round, "ops": ops})
				return false
			}
			if string(node.StateTip()) != string(wire.Blockid) {
				r.Violation("replica|procblock-did-not-apply|"+who, fmt.Sprintf("round %d: the %s's engine accepted the produced block but its state is not on it", round, who),
					map[string]interface{}{"marathon": idx, "round": round, "ops": ops})
				return false
			}
			return true
		}
		cold, err := f.Twin() // same data as the follower, fresh process: cold caches
		if err != nil {
			r.Inconclusive(err.Error())
			return
		}
		okCold := receive(cold, "cold follower")
		cold.Drop()
		if !okCold || !receive(f, "follower") {
			return
		}
		if err := p.ConfirmForMiner(blk); err != nil {
			r.Violation("producer|confirm-for-miner-failed", fmt.Sprintf("round %d: %v", round, err), map[string]interface{}{"marathon": idx, "round": round, "ops": ops})
			return
		}
		r.Count("marathon.blocks", 1)
		for _, x := range wire.Transactions[1:] {
			if !x.Autogen {
				confirmedEarlier = append(confirmedEarlier, x)
			}
		}
		// ---- what the producer still holds pending must be valid on the follower, then both agree ----
		left, _ := p.State.GetUnconfirmedTx(false)
		fpool, _ := f.State.GetUnconfirmedTx(false)
		have := map[string]bool{}
		for _, x := range fpool {
			have[string(x.Txid)] = true
		}
		for _, x := range left {
			if have[string(x.Txid)] {
				continue
			}
			if err := f.State.DoTx(sn.CloneTx(x)); err != nil {
				r.Violation("producer|leftover-pool-invalid", fmt.Sprintf("round %d: a transaction left in the producer's pool is refused by the follower at the same block: %v", round, err),
					map[string]interface{}{"marathon": idx, "round": round, "ops": ops})
				return
			}
		}
		ids := [][]byte{}
		for _, x := range wire.Transactions {
			ids = append(ids, x.Txid)
		}
		for _, x := range poolBefore {
			ids = append(ids, x.Txid)
		}
		if d := sn.ObserveOpt(p, sn.ObsOpt{Txids: ids}).Diff(sn.ObserveOpt(f, sn.ObsOpt{Txids: ids})); len(d) > 0 {
			if len(d) > 6 {
				d = d[:6]
			}
			r.Violation("replica|state-differs|marathon", fmt.Sprintf("round %d: producer vs follower after the produced block: %s", round, strings.Join(d, " ;; ")),
				map[string]interface{}{"marathon": idx, "round": round, "ops": ops})
			return
		}
		r.Count("marathon.state.equal", 1)
		if rng.Intn(11) == 0 {
			// the producer restarts too: its pool is reloaded from disk, its caches are cold
			if err := p.Reopen(); err != nil {
				r.Inconclusive(err.Error())
				return
			}
			ops = append(ops, fmt.Sprintf("r%d:producer-restart", round))
			r.Count("marathon.producer-restarts", 1)
		}
		if rng.Intn(7) == 0 {
			if err := f.Reopen(); err != nil {
				r.Inconclusive(err.Error())
				return
			}
			ops = append(ops, fmt.Sprintf("r%d:follower-restart", round))
			r.Count("marathon.follower-restarts", 1)
		}
	}
	r.Case(fmt.Sprintf("marathon|%d|%s", idx, strings.Join(ops, ",")), true)
	_ = pb.Transaction{}
}
