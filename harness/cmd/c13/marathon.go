package main

// Marathon: ONE long-lived producer mines many consecutive blocks from a pool that keeps being
// refilled (children of transactions the size limit left behind included), on a chain whose award
// decays every two blocks. Every block is offered to a long-lived follower (the engine's receive
// path: VerifyBlock, IsValidTx for every transaction, ConfirmBlock, Walk) that is restarted now
// and then, and to a fresh twin of the follower with cold caches. Whatever the producer has
// cached, skipped or left in its pool in earlier rounds must not show in later blocks.

import (
	"bytes"
	"fmt"
	"math/rand"
	"strings"

	pb "github.com/xuperchain/xupercore/bcs/ledger/xledger/xldgpb"

	"verif/ev"
	"verif/gen"
	sn "verif/simnode"
)

func marathon(r *ev.Run, idx int) {
	rng := rand.New(rand.NewSource(r.Seed*6151 + int64(idx)))
	var ops []string
	defer func() {
		if p := recover(); p != nil {
			if inc, ok := p.(sn.Inconclusive); ok {
				r.Inconclusive(inc.Why)
				return
			}
			r.Violation("panic|marathon", fmt.Sprintf("panic in marathon %d: %v", idx, p), map[string]interface{}{"marathon": idx, "ops": ops})
		}
	}()
	o := gen.DefaultOpts()
	o.Cfg.MaxBlockMB = 1
	o.Cfg.Award = "1000000"
	o.Cfg.DecayGap = 2
	o.Cfg.DecayRatio = 0.5
	t, err := gen.NewTree(o)
	if err != nil {
		r.Inconclusive(err.Error())
		return
	}
	defer t.Drop()
	p, err := t.Author(0)
	if err != nil {
		r.Inconclusive(err.Error())
		return
	}
	defer func() { p.Drop() }()
	f, err := t.Author(0)
	if err != nil {
		r.Inconclusive(err.Error())
		return
	}
	defer func() { f.Drop() }()
	var confirmedEarlier []*pb.Transaction
	rounds := 22 + rng.Intn(6)
	for round := 1; round <= rounds; round++ {
		// refill the producer's pool: 0..5 transactions, some of them big (the limit is 0.8 MB)
		n := rng.Intn(6)
		for i := 0; i < n; i++ {
			x, kind, _ := t.GenTx(rng, p)
			if x == nil {
				continue
			}
			if sz := []int{0, 0, 0, 150, 300, 450, 700}[rng.Intn(7)]; sz > 0 {
				k := sn.KeyByAddr(x.Initiator)
				x.Desc = bytes.Repeat([]byte{byte('a' + i)}, sz*1024)
				if sn.SignTx(x, []*sn.Key{k}, false) != nil {
					continue
				}
				x, _ = sn.Wire(x)
				kind += fmt.Sprintf("+desc%dk", sz)
			}
			if ok, _ := p.State.VerifyTx(x); !ok {
				continue
			}
			if rng.Intn(9) == 0 {
				// the disk fails while this transaction is admitted: the client is told so, and
				// whatever the node packs next must still be a block every replica applies to the
				// producer's state (a transaction whose admission failed has no effects to confirm)
				p.World.ArmFail(1)
				err := p.State.DoTx(sn.CloneTx(x))
				p.World.ArmFail(0)
				r.Count("marathon.write-error-at-admission", 1)
				ops = append(ops, fmt.Sprintf("r%d:submit-with-write-error(%s)=%v", round, kind, err == nil))
				if err == nil {
					r.Violation("marathon|write-error-swallowed|dotx", "DoTx reported success although its storage write failed", map[string]interface{}{"marathon": idx, "round": round, "ops": ops})
					return
				}
				continue
			}
			if p.State.DoTx(sn.CloneTx(x)) == nil {
				ops = append(ops, fmt.Sprintf("r%d:submit(%s)", round, kind))
				r.Count("marathon.submitted", 1)
			}
		}
		// now and then a client sends a transaction again that an earlier block has confirmed (a
		// retry, a replay): refused or not, what the node packs next must still be a valid block
		if len(confirmedEarlier) > 0 && rng.Intn(3) == 0 {
			x := confirmedEarlier[rng.Intn(len(confirmedEarlier))]
			c := sn.CloneTx(x)
			c.Blockid = nil
			var err error
			if rng.Intn(2) == 0 {
				err = p.SubmitTx(c) // within the engine's 120 s duplicate-id cache
			} else if ok, verr := p.State.VerifyTx(c); !ok || verr != nil { // the cache has expired / the node was restarted
				err = fmt.Errorf("verify: %v", verr)
			} else {
				err = p.State.DoTx(c)
			}
			if err == nil {
				r.Count("marathon.resubmitted-confirmed.admitted", 1)
			} else {
				r.Count("marathon.resubmitted-confirmed.refused", 1)
			}
			ops = append(ops, fmt.Sprintf("r%d:resubmit-confirmed=%v", round, err == nil))
		}
		// now and then a rival producer is about to overtake this round's block: a twin of the follower
		// taken BEFORE the block exists (same chain, the follower's pool) will build two blocks on
		// the current tip; see below
		var rival *sn.Node
		if round >= 2 && rng.Intn(5) == 0 {
			if rival, err = f.Twin(); err != nil {
				r.Inconclusive(err.Error())
				return
			}
		}
		dropRival := func() {
			if rival != nil {
				rival.Drop()
				rival = nil
			}
		}
		defer dropRival()
		poolBefore, _ := p.State.GetUnconfirmedTx(false)
		blk, err := p.PackBlock(sn.K(0), int64(7000000+idx*1000+round))
		if err != nil {
			r.Violation("pack|failed", "packBlock failed: "+err.Error(), map[string]interface{}{"marathon": idx, "round": round, "ops": ops})
			return
		}
		wire := sn.WireBlock(blk)
		packed := len(wire.Transactions) - 1
		ops = append(ops, fmt.Sprintf("r%d:pack(%d of %d)", round, packed, len(poolBefore)))
		if packed < len(poolBefore) {
			r.Count("marathon.blocks-leaving-pool-behind", 1)
			if len(poolBefore)-packed == 1 {
				r.Count("marathon.blocks-leaving-exactly-one-behind", 1)
			}
		}
		// ---- the follower's receive path ----
		receive := func(node *sn.Node, who string) bool {
			// the engine's real entry for a block received from a peer
			if err := node.ProcBlock(wire); err != nil {
				// name the step that objects (same calls, for the message only)
				step := "walk / consensus"
				if ok, _ := node.Ledger.VerifyBlock(wire, "c13m"); !ok {
					step = "VerifyBlock"
				}
				for i, x := range wire.Transactions {
					if !node.Ledger.IsValidTx(i, x, wire) {
						step = fmt.Sprintf("IsValidTx(%d)", i)
						if i == 0 {
							step = fmt.Sprintf("IsValidTx(award: block carries %x at height %d)", x.TxOutputs[0].Amount, wire.Height)
						}
						break
					}
				}
				r.Violation("replica|procblock-failed|"+who, fmt.Sprintf("round %d: the %s's engine refuses the produced block: %v (objecting step: %s); log %v", round, who, err, step, node.Log.Tail(3)),
					map[string]interface{}{"marathon": idx, "round": round, "ops": ops})
				return false
			}
			if string(node.StateTip()) != string(wire.Blockid) {
				r.Violation("replica|procblock-did-not-apply|"+who, fmt.Sprintf("round %d: the %s's engine accepted the produced block but its state is not on it", round, who),
					map[string]interface{}{"marathon": idx, "round": round, "ops": ops})
				return false
			}
			return true
		}
		cold, err := f.Twin() // same data as the follower, fresh process: cold caches
		if err != nil {
			r.Inconclusive(err.Error())
			return
		}
		okCold := receive(cold, "cold follower")
		cold.Drop()
		if !okCold || !receive(f, "follower") {
			return
		}
		if err := p.ConfirmForMiner(blk); err != nil {
			r.Violation("producer|confirm-for-miner-failed", fmt.Sprintf("round %d: %v", round, err), map[string]interface{}{"marathon": idx, "round": round, "ops": ops})
			return
		}
		r.Count("marathon.blocks", 1)
		for _, x := range wire.Transactions[1:] {
			if !x.Autogen {
				confirmedEarlier = append(confirmedEarlier, x)
			}
		}
		// ---- what the producer still holds pending must be valid on the follower, then both agree ----
		left, _ := p.State.GetUnconfirmedTx(false)
		fpool, _ := f.State.GetUnconfirmedTx(false)
		have := map[string]bool{}
		for _, x := range fpool {
			have[string(x.Txid)] = true
		}
		for _, x := range left {
			if have[string(x.Txid)] {
				continue
			}
			if err := f.State.DoTx(sn.CloneTx(x)); err != nil {
				r.Violation("producer|leftover-pool-invalid", fmt.Sprintf("round %d: a transaction left in the producer's pool is refused by the follower at the same block: %v", round, err),
					map[string]interface{}{"marathon": idx, "round": round, "ops": ops})
				return
			}
		}
		ids := [][]byte{}
		for _, x := range wire.Transactions {
			ids = append(ids, x.Txid)
		}
		for _, x := range poolBefore {
			ids = append(ids, x.Txid)
		}
		if d := sn.ObserveOpt(p, sn.ObsOpt{Txids: ids}).Diff(sn.ObserveOpt(f, sn.ObsOpt{Txids: ids})); len(d) > 0 {
			if len(d) > 6 {
				d = d[:6]
			}
			r.Violation("replica|state-differs|marathon", fmt.Sprintf("round %d: producer vs follower after the produced block: %s", round, strings.Join(d, " ;; ")),
				map[string]interface{}{"marathon": idx, "round": round, "ops": ops})
			return
		}
		r.Count("marathon.state.equal", 1)
		if rival != nil {
			// ---- reorganisation: the rival's two blocks replace the producer's latest block on every node ----
			var fork []*pb.InternalBlock
			for i := 0; i < 2; i++ {
				if i == 1 {
					if x, _, _ := t.GenTx(rng, rival); x != nil {
						if ok, _ := rival.State.VerifyTx(x); ok {
							rival.State.DoTx(sn.CloneTx(x))
						}
					}
				}
				a, err := rival.PackBlock(sn.K(1), int64(7500000+idx*1000+round*2+i))
				if err == nil {
					err = rival.ConfirmForMiner(a)
				}
				if err != nil {
					r.Violation("producer|rival-cannot-produce", fmt.Sprintf("round %d: a node at the previous block cannot produce from the follower's pool: %v", round, err), map[string]interface{}{"marathon": idx, "round": round, "ops": ops})
					return
				}
				fork = append(fork, sn.WireBlock(a))
			}
			for _, nd := range []struct {
				n   *sn.Node
				who string
			}{{p, "producer"}, {f, "follower"}} {
				for _, a := range fork {
					if err := nd.n.ProcBlock(a); err != nil {
						r.Violation("replica|rival-block-refused|"+nd.who, fmt.Sprintf("round %d: the %s's engine refuses a rival's block (fork of 2 on the previous block): %v; log %v", round, nd.who, err, nd.n.Log.Tail(3)),
							map[string]interface{}{"marathon": idx, "round": round, "ops": ops})
						return
					}
				}
				if string(nd.n.StateTip()) != string(fork[1].Blockid) {
					r.Violation("replica|did-not-reorganise|"+nd.who, fmt.Sprintf("round %d: the %s did not move to the longer fork", round, nd.who), map[string]interface{}{"marathon": idx, "round": round, "ops": ops})
					return
				}
			}
			ops = append(ops, fmt.Sprintf("r%d:reorganised(own block undone, %d+%d txs)", round, len(fork[0].Transactions)-1, len(fork[1].Transactions)-1))
			r.Count("marathon.reorganisations", 1)
			// the chain state of all three is that of the fork; the pools differ, so compare after
			// emptying them into one more rival block? No: compare what does not depend on the pool -
			// every node's pool is a valid extension, so give the rival the others' pending
			// transactions and compare pairwise through twins with the pools rolled back is C01's
			// job; here: what the producer holds pending must be admissible on the follower, and the
			// blocks it produces from now on must replay (the following rounds)
			left, _ := p.State.GetUnconfirmedTx(false)
			fpool, _ := f.State.GetUnconfirmedTx(false)
			have := map[string]bool{}
			for _, x := range fpool {
				have[string(x.Txid)] = true
			}
			for _, x := range left {
				if have[string(x.Txid)] {
					continue
				}
				if err := f.State.DoTx(sn.CloneTx(x)); err != nil {
					r.Violation("producer|leftover-pool-invalid|after-reorganisation", fmt.Sprintf("round %d: after the reorganisation a transaction in the producer's pool is refused by the follower at the same block: %v", round, err),
						map[string]interface{}{"marathon": idx, "round": round, "ops": ops})
					return
				}
			}
			// transactions of the undone block are no longer confirmed
			confirmedEarlier = nil
			dropRival()
		}
		if rng.Intn(11) == 0 {
			// the producer restarts too: its pool is reloaded from disk, its caches are cold
			if err := p.Reopen(); err != nil {
				r.Inconclusive(err.Error())
				return
			}
			ops = append(ops, fmt.Sprintf("r%d:producer-restart", round))
			r.Count("marathon.producer-restarts", 1)
		}
		if rng.Intn(7) == 0 {
			if err := f.Reopen(); err != nil {
				r.Inconclusive(err.Error())
				return
			}
			ops = append(ops, fmt.Sprintf("r%d:follower-restart", round))
			r.Count("marathon.follower-restarts", 1)
		}
	}
	r.Case(fmt.Sprintf("marathon|%d|%s", idx, strings.Join(ops, ",")), true)
	_ = pb.Transaction{}
}
