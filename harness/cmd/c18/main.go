// C18: snapshot reads return a key's value as of the chosen main-chain block.
package main

import (
	"fmt"
	"math/rand"
	"os"
	"time"

	"verif/ev"
	"verif/gen"
	"verif/hist"
	sn "verif/simnode"
)

type rec struct {
	val string
	ver string
}

func keyUniverse() [][2]string {
	var out [][2]string
	for _, b := range gen.Buckets {
		for _, k := range gen.KeyNames {
			out = append(out, [2]string{b, k})
		}
	}
	return out
}

// recorded answers of the live reader when block i was the tip (from the history-free node)
func record(t *gen.Tree, cache map[int]map[string]rec, i int) (map[string]rec, error) {
	if m, ok := cache[i]; ok {
		return m, nil
	}
	n, err := sn.OpenOn(t.Blocks[i].Canon.Clone(), t.Opts.Cfg)
	if err != nil {
		return nil, err
	}
	defer n.Drop()
	m := map[string]rec{}
	rd := n.State.CreateXMReader()
	for _, bk := range keyUniverse() {
		vd, err := rd.Get(bk[0], []byte(bk[1]))
		if err != nil {
			return nil, err
		}
		m[bk[0]+"/"+bk[1]] = rec{val: fmt.Sprintf("%x", vd.GetPureData().GetValue()), ver: fmt.Sprintf("%x_%d", vd.GetRefTxid(), vd.GetRefOffset())}
	}
	cache[i] = m
	return m, nil
}

func main() {
	r := ev.Start("C18", "exploration",
		"key-heavy block trees (create / overwrite / delete / re-create / several writes per block, forks, shared transactions) x op sequences (confirm, play, own blocks, walks incl. "+
			"reorganisations, reopen, pending pool writes); whenever state and ledger are synchronised, for EVERY block B of the chain and every key of the universe "+
			"CreateSnapshot(B).Get (value+version) and CreateXMSnapshotReader(B).Get are compared with what the live reader answered when B was the tip (recorded on a history-free node); the tip "+
			"snapshot is additionally checked never to expose pending writes; case = one history; non-trivial = a reorganisation happened and a pool write was pending during an audit; "+
			"plus readers running BESIDE block processing (one growing chain, peer blocks and own blocks, pending traffic on the same keys, storage-latency jitter): snapshots of already applied "+
			"blocks, the tip reader, and strict tip-by-id readers (GetLatestBlockid, then CreateXMSnapshotReader / CreateSnapshot of exactly that id; expected answer = a function of the id alone); "+
			"plus snapshot reads under transient storage READ errors: for every (chain block, key) of histories with deleted-and-re-created keys, never-deleted keys and pending writes on top, each reader's call "+
			"is repeated with exactly its k-th storage read failing once (not 'not found'), for every k: an error or exactly the recorded answer")
	defer sn.CleanupScratch()
	nh := r.N(150, 4000)
	o := gen.DefaultOpts()
	o.KVShare = 70
	o.MaxDepth = 8
	o.MaxBlocks = 12
	caches := map[*gen.Tree]map[int]map[string]rec{}
	hist.NonTrivial = func(s *hist.SUT) bool { return s.Stats["walk.crossfork"] > 0 && s.Stats["snap.pending"] > 0 }
	hist.RunHistoriesX(r, nh, o, hist.StepOpts{Reopen: true, Pool: true, Mine: true, Engine: true}, 12, 40, nil, func(s *hist.SUT, op hist.Op) []hist.Problem {
		if ps := hist.MustSucceed(op); len(ps) > 0 {
			return ps
		}
		tip := s.Tip()
		if lt := s.LedgerTip(); lt >= 0 && lt != tip {
			// the ledger holds main-chain blocks the state machine has not applied yet (the window
			// in which the engine's consensus code already reads snapshots): read there WITHOUT
			// judging the answers; whatever such a read leaves behind must not change the judged
			// answers once the state has caught up
			for _, j := range s.T.Path(lt) {
				if tip >= 0 && s.T.Blocks[j].Height <= s.T.Blocks[tip].Height {
					continue
				}
				if snap, err := s.N.State.CreateSnapshot(s.T.Blocks[j].ID); err == nil {
					for _, bk := range keyUniverse() {
						snap.Get(bk[0], []byte(bk[1]))
						s.Stats["snap.early-reads"]++
					}
				}
			}
		}
		if tip < 0 || tip != s.LedgerTip() {
			return nil
		}
		c := caches[s.T]
		if c == nil {
			for k := range caches {
				delete(caches, k)
			}
			c = map[int]map[string]rec{}
			caches[s.T] = c
		}
		pool, _ := s.N.State.GetUnconfirmedTx(false)
		pendingWrites := 0
		for _, x := range pool {
			pendingWrites += len(x.TxOutputsExt)
		}
		if pendingWrites > 0 {
			s.Stats["snap.pending"]++
		}
		for _, j := range s.T.Path(tip) {
			want, err := record(s.T, c, j)
			if err != nil {
				return []hist.Problem{{Sig: "snapshot|record-unavailable", Detail: err.Error()}}
			}
			id := s.T.Blocks[j].ID
			snap, err := s.N.State.CreateSnapshot(id)
			if err != nil {
				return []hist.Problem{{Sig: "snapshot|create-failed", Detail: fmt.Sprintf("CreateSnapshot(block %d): %v", j, err)}}
			}
			rd, err := s.N.State.CreateXMSnapshotReader(id)
			if err != nil {
				return []hist.Problem{{Sig: "snapshot|create-failed", Detail: fmt.Sprintf("CreateXMSnapshotReader(block %d): %v", j, err)}}
			}
			for _, bk := range keyUniverse() {
				k := bk[0] + "/" + bk[1]
				vd, err := snap.Get(bk[0], []byte(bk[1]))
				s.Stats["snap.reads"]++
				if err != nil {
					return []hist.Problem{{Sig: "snapshot|get-error", Detail: fmt.Sprintf("snapshot(block %d).Get(%s): %v (tip %d, after %s)", j, k, err, tip, op.String())}}
				}
				got := rec{val: fmt.Sprintf("%x", vd.GetPureData().GetValue()), ver: fmt.Sprintf("%x_%d", vd.GetRefTxid(), vd.GetRefOffset())}
				if got != want[k] {
					which := "past"
					if j == tip {
						which = "tip"
					}
					return []hist.Problem{{Sig: "snapshot|wrong-answer|" + which, Detail: fmt.Sprintf(
						"snapshot(block %d, h=%d).Get(%s) = %v, live reader answered %v when that block was the tip (state tip %d, %d pending writes, after %s)",
						j, s.T.Blocks[j].Height, k, got, want[k], tip, pendingWrites, op.String())}}
				}
				raw, err := rd.Get(bk[0], []byte(bk[1]))
				if err != nil || fmt.Sprintf("%x", raw) != want[k].val {
					return []hist.Problem{{Sig: "snapshot|wrong-answer|reader", Detail: fmt.Sprintf(
						"XMSnapshotReader(block %d).Get(%s) = %x / %v, want %s", j, k, raw, err, want[k].val)}}
				}
				if want[k].ver != "_0" {
					s.Stats["snap.reads.written-key"]++
				}
			}
		}
		// the tip readers of the state
		if tr, err := s.N.State.GetTipXMSnapshotReader(); err == nil {
			want, _ := record(s.T, c, tip)
			for _, bk := range keyUniverse() {
				raw, err := tr.Get(bk[0], []byte(bk[1]))
				if err != nil || fmt.Sprintf("%x", raw) != want[bk[0]+"/"+bk[1]].val {
					return []hist.Problem{{Sig: "snapshot|wrong-answer|tip-reader", Detail: fmt.Sprintf(
						"GetTipXMSnapshotReader().Get(%s/%s) = %x / %v, want %s (%d pending writes)", bk[0], bk[1], raw, err, want[bk[0]+"/"+bk[1]].val, pendingWrites)}}
				}
			}
		}
		s.Stats["snap.audits"]++
		return nil
	}, func(s *hist.SUT, rng *rand.Rand) []hist.Problem {
		// keep writes pending while the node is synchronised
		if s.Tip() >= 0 && s.Tip() == s.LedgerTip() && rng.Intn(3) == 0 {
			fam := []string{"kv-ww", "kv-rw", "stale-after-write"}[rng.Intn(3)]
			s.AttemptFamily(rng, fam, false)
		}
		return nil
	})
	t0 := time.Now() // progress only (stderr), never part of a verdict
	concurrentReaders(r)
	t1 := time.Now()
	pendingDeleteReaders(r)
	t2 := time.Now()
	readFaults(r)
	fmt.Fprintf(os.Stderr, "C18: concurrent readers %.1fs, readers beside pool roll-back %.1fs, read faults %.1fs\n", t1.Sub(t0).Seconds(), t2.Sub(t1).Seconds(), time.Since(t2).Seconds())
	r.Floor("conc.snapshot-reads", 20000)
	r.Floor("conc.pool-rollbacks", 50)
	// the strict tip-by-id readers: enough reads that can tell a tip block from its parent, enough of
	// them while the operation that applies the block was still running, over enough blocks of both
	// the receive paths and the miner's own-block path
	r.Floor("conc.strict-tip-reads", 10000)
	r.Floor("conc.strict-tip-reads.key-changed-by-the-tip-block", 4000)
	r.Floor("conc.strict-tip-reads.before-the-applying-op-returned", 500)
	r.Floor("conc.blocks-applied.changing-a-read-key", 80)
	r.Floor("conc.blocks-applied.own-block-path", 30)
	r.Floor("conc.blocks-applied.receive-path", 15)
	// readers beside the pool's roll-back / re-admission of pending deletes
	r.Floor("conc.pending-delete.pool-rollbacks", 600)
	r.Floor("conc.pending-delete.snapshot-reads", 5000)
	r.Floor("conc.pending-delete.rounds-with-the-deletes-still-pending-at-the-end", 2)
	// snapshot reads with one storage read of the call failing
	r.Floor("readfault.faulted-reads", 10000)
	r.Floor("readfault.faulted-reads.first-storage-read-of-the-call", 2000)
	r.Floor("readfault.faulted-reads.later-storage-read-of-the-call", 8000)
	r.Floor("readfault.faulted-reads.key-deleted-and-re-created", 2000)
	r.Floor("readfault.faulted-reads.key-written-never-deleted", 4000)
	r.Floor("readfault.faulted-reads.key-with-a-pending-write", 3500)
	r.Floor("readfault.faulted-reads.past-block", 8000)
	r.Floor("readfault.faulted-reads.tip-reader", 400)
	r.Floor("readfault.passes", 12)
	r.Floor("snap.audits", 800)
	r.Floor("snap.reads", 50000)
	r.Floor("snap.reads.written-key", 5000)
	r.Floor("snap.pending", 100)
	r.Floor("snap.early-reads", 2000)
	r.Floor("walk.crossfork", 50)
	r.Floor("txkind.del", 10)
	r.Assume("audited only while the state machine is synchronised with the ledger tip (the statement speaks of main-chain blocks up to the current tip)")
	r.Finish()
}
