package main

// Snapshot reads under transient storage READ errors. "Reading a key through a snapshot taken at
// main-chain block B returns exactly what the live reader returned for that key when B was the
// tip": a read that cannot reach its data may FAIL (the callers - access-control manager,
// validator election - refuse or retry on an error); a read that ANSWERS has to answer the recorded
// value. A storage engine reports transient read errors (an I/O error, a checksum error of one
// table block) that are not "not found"; code that treats such an error as a miss and goes on
// (to the next table, to the parent version, to "never written") turns it into a wrong answer
// without an error.
//
// One round: the deepest chain of a generated key-heavy tree (create / overwrite / delete /
// re-create histories) is applied, then the node produces own blocks with a scripted history on
// top of it - k1: written, deleted in a later block, created again in a third (its delete mark
// stays in the recycle table); k2, k3: written, never deleted; k3 overwritten - plus random pool
// traffic on the key universe; then writes stay PENDING (an overwrite of the re-created key, a
// delete of a never-deleted key - which moves it to the recycle table -, random traffic). The node
// is quiescent (no pool recovery running) and synchronised. For EVERY block B of the chain and
// every key of the universe, through CreateXMSnapshotReader(B).Get, CreateSnapshot(B).Get and (B =
// tip) GetTipXMSnapshotReader().Get:
//   - the call is made fault-free and the storage reads it makes are counted (n);
//   - for k = 1..n the call is repeated with exactly the k-th storage read of the call failing
//     once (memkv.ArmFailRead; every later read works again);
//   - the call is made fault-free again (a failed read must not leave anything behind).
// The same is done on a node re-opened on a copy of the data (cold caches: more of a read reaches
// the storage). Oracle: error, or exactly the recorded answer. Errors are counted, not judged.

import (
	"fmt"
	"math/rand"

	"verif/ev"
	"verif/gen"
	"verif/hist"
	sn "verif/simnode"
)

const sigReadFault = "snapshot|read-fault|wrong-answer-without-error|"

type keyClass struct {
	recreated    bool // deleted as of some block of the chain, existing again as of a later one
	neverDeleted bool // written as of the tip, deleted as of no block of the chain
	pending      bool // a pending transaction writes (or deletes) the key
}

func readFaults(r *ev.Run) {
	rounds := r.N(10, 150)
	for round := 0; round < rounds; round++ {
		rng := rand.New(rand.NewSource(r.Seed*8887 + int64(round)))
		o := gen.DefaultOpts()
		o.KVShare = 80
		o.MaxDepth = 8
		o.MaxBlocks = 9
		t, err := gen.Generate(rng, o)
		if err != nil {
			r.Inconclusive("read faults: generator: " + err.Error())
			return
		}
		leaf := 0
		for _, b := range t.Blocks {
			if b.Height > t.Blocks[leaf].Height {
				leaf = b.Idx
			}
		}
		path := t.Path(leaf)
		cache := map[int]map[string]rec{}
		var chain []*chainBlock
		ok := true
		for i, j := range path {
			cb := &chainBlock{idx: i, id: t.Blocks[j].ID, height: t.Blocks[j].Height}
			if cb.want, err = record(t, cache, j); err != nil {
				ok = false
				break
			}
			chain = append(chain, cb)
		}
		var s *hist.SUT
		var shadow *sn.Node
		if ok {
			if s, err = hist.NewSUT(t); err == nil {
				shadow, err = sn.OpenOn(t.Blocks[leaf].Canon.Clone(), t.Opts.Cfg)
			}
		}
		if err != nil || !ok {
			if s != nil {
				s.N.Drop()
			}
			t.Drop()
			r.Inconclusive("read faults: cannot set the scenario up")
			return
		}
		var first *hist.Problem
		var twin *sn.Node
		func() {
			defer func() {
				if p := recover(); p != nil {
					s.N.World.ArmFailRead(0)
					if inc, isInc := p.(sn.Inconclusive); isInc {
						r.Inconclusive(inc.Why)
						return
					}
					first = &hist.Problem{Sig: "snapshot|read-fault|panic", Detail: fmt.Sprintf("a snapshot read with one failing storage read (or the history before it) panicked: %v", p)}
				}
			}()
			for _, j := range path[1:] {
				op := s.Confirm(j)
				if okRes(op.Result) {
					op = s.Walk(j, false)
				}
				if !okRes(op.Result) || s.Tip() != j {
					first = &hist.Problem{Sig: "legal-op-failed|" + op.Kind, Detail: "applying the chain failed: " + op.String()}
					return
				}
			}
			keys := keyUniverse()
			sh := append([][2]string(nil), keys...)
			rng.Shuffle(len(sh), func(i, j int) { sh[i], sh[j] = sh[j], sh[i] })
			k1, k2, k3 := sh[0], sh[1], sh[2]
			put := func(bk [2]string, v string) *sn.ProgBuilder {
				p := &sn.ProgBuilder{}
				return p.Put(bk[0], []byte(bk[1]), []byte(v))
			}
			del := func(bk [2]string) *sn.ProgBuilder {
				p := &sn.ProgBuilder{}
				return p.Get(bk[0], []byte(bk[1])).Del(bk[0], []byte(bk[1]))
			}
			step := 0
			traffic := func(n int) []*sn.ProgBuilder {
				var out []*sn.ProgBuilder
				for i := 0; i < n; i++ {
					bk := sh[3+rng.Intn(len(sh)-3)] // not the scripted keys
					switch rng.Intn(3) {
					case 0:
						out = append(out, del(bk))
					case 1:
						out = append(out, put(bk, fmt.Sprintf("rf%d-%d-%d", round, step, i)))
					default:
						p := del(bk)
						out = append(out, p.Put(bk[0], []byte(bk[1]), []byte(fmt.Sprintf("rf-again%d-%d", step, i))))
					}
				}
				return out
			}
			submit := func(progs []*sn.ProgBuilder, scripted int) bool {
				for i, p := range progs {
					if res := s.SubmitProg(rng, p); res != "ok" && i < scripted {
						r.Inconclusive("read faults: a scripted transaction was refused: " + res)
						return false
					}
				}
				return true
			}
			ts := int64(1000000)
			if last := t.Blocks[leaf]; last.Block != nil {
				ts = last.Block.Timestamp
			}
			script := [][]*sn.ProgBuilder{
				{put(k1, "rf-a1"), put(k2, "rf-a2"), put(k3, "rf-a3")},
				{del(k1), put(k3, "rf-b3")},
				{put(k1, "rf-c1")},
			}
			for _, progs := range script {
				step++
				if !submit(append(progs, traffic(2)...), len(progs)) {
					return
				}
				ts += 10
				packed, err := s.N.PackBlock(sn.K(0), ts)
				if err != nil {
					first = &hist.Problem{Sig: "legal-op-failed|pack", Detail: "the node cannot pack a block from its own pool: " + err.Error()}
					return
				}
				b := sn.WireBlock(packed)
				if st := shadow.Confirm(b); !st.Succ {
					r.Count("readfault.own-blocks-not-recordable", 1)
					return
				}
				if err := shadow.State.Play(b.Blockid); err != nil {
					r.Count("readfault.own-blocks-not-recordable", 1)
					return
				}
				cb := &chainBlock{idx: len(chain), id: b.Blockid, height: b.Height, own: true}
				if cb.want, err = universeOf(shadow); err != nil {
					r.Count("readfault.own-blocks-not-recordable", 1)
					return
				}
				if err = s.N.ConfirmForMiner(cloneBlock(b)); err != nil || string(s.N.StateTip()) != string(b.Blockid) {
					first = &hist.Problem{Sig: "legal-op-failed|mine", Detail: fmt.Sprintf("the miner's own-block path did not apply a block packed from the node's pool: %v", err)}
					return
				}
				chain = append(chain, cb)
			}
			// pending writes on top: an overwrite of the re-created key, a delete of a never-deleted key
			step++
			pdel := k2
			if rng.Intn(2) == 0 {
				pdel = k3
			}
			if !submit(append([]*sn.ProgBuilder{put(k1, "rf-pending1"), del(pdel)}, traffic(3)...), 2) {
				return
			}
			s.N.WaitQuiescent()
			pendingOn := map[string]bool{}
			pool, _ := s.N.State.GetUnconfirmedTx(false)
			for _, x := range pool {
				for _, out := range x.TxOutputsExt {
					pendingOn[out.Bucket+"/"+string(out.Key)] = true
				}
			}
			// classes of the keys (from the recorded answers along the chain)
			classes := map[string]keyClass{}
			for _, bk := range keys {
				k := bk[0] + "/" + bk[1]
				c := keyClass{pending: pendingOn[k]}
				deleted, everDeleted := false, false
				for _, cb := range chain {
					w := cb.want[k]
					switch {
					case w.val == "00":
						deleted, everDeleted = true, true
					case deleted && w.ver != "_0":
						c.recreated, deleted = true, false
					}
				}
				c.neverDeleted = !everDeleted && chain[len(chain)-1].want[k].ver != "_0"
				classes[k] = c
			}
			if first = faultPass(r, s.N, chain, classes, "the node that processed the history"); first != nil {
				return
			}
			// the same on a node re-opened on a copy of the data: cold caches
			if twin, err = s.N.Twin(); err != nil {
				r.Inconclusive("read faults: cannot re-open the node on a copy of its data: " + err.Error())
				twin = nil
				return
			}
			twin.WaitQuiescent()
			if string(twin.StateTip()) != string(s.N.StateTip()) {
				r.Count("readfault.reopened-node-at-another-tip(not judged)", 1)
				return
			}
			first = faultPass(r, twin, chain, classes, "a node re-opened on a copy of the data")
		}()
		s.N.World.ArmFailRead(0)
		r.Case(fmt.Sprintf("read-faults|%s", t.Shape()), true)
		r.Count("readfault.rounds", 1)
		ops := s.OpLog()
		if twin != nil {
			twin.Drop()
		}
		s.N.Drop()
		shadow.Drop()
		t.Drop()
		if first != nil {
			if !r.Violation(first.Sig, first.Detail, map[string]interface{}{"round": round, "seed": r.Seed, "part": "read-faults", "ops": ops}) {
				break
			}
		}
	}
}

// faultPass reads every (chain block, key) through every reader with every single storage read of
// the call failing in turn.
func faultPass(r *ev.Run, n *sn.Node, chain []*chainBlock, classes map[string]keyClass, where string) *hist.Problem {
	w := n.World
	defer w.ArmFailRead(0)
	tipIdx := len(chain) - 1
	judged := 0
	defer func() { r.Evals(judged) }()
	for _, cb := range chain {
		vias := []string{"CreateXMSnapshotReader(block).Get", "CreateSnapshot(block).Get"}
		if cb.idx == tipIdx {
			vias = append(vias, "GetTipXMSnapshotReader().Get")
		}
		for _, bk := range keyUniverse() {
			k := bk[0] + "/" + bk[1]
			cl := classes[k]
			for vi, via := range vias {
				want := cb.want[k]
				if vi != 1 {
					want.ver = "" // these readers answer the value only
				}
				call := func() (rec, error) {
					switch vi {
					case 0:
						rd, err := n.State.CreateXMSnapshotReader(cb.id)
						if err != nil {
							return rec{}, err
						}
						raw, err := rd.Get(bk[0], []byte(bk[1]))
						return rec{val: fmt.Sprintf("%x", raw)}, err
					case 1:
						snap, err := n.State.CreateSnapshot(cb.id)
						if err != nil {
							return rec{}, err
						}
						vd, err := snap.Get(bk[0], []byte(bk[1]))
						if err != nil {
							return rec{}, err
						}
						return rec{val: fmt.Sprintf("%x", vd.GetPureData().GetValue()), ver: fmt.Sprintf("%x_%d", vd.GetRefTxid(), vd.GetRefOffset())}, nil
					default:
						rd, err := n.State.GetTipXMSnapshotReader()
						if err != nil {
							return rec{}, err
						}
						raw, err := rd.Get(bk[0], []byte(bk[1]))
						return rec{val: fmt.Sprintf("%x", raw)}, err
					}
				}
				describe := func() string {
					kind := "a peer's block"
					if cb.own {
						kind = "a block the node produced itself"
					}
					return fmt.Sprintf("chain block %d of %d (h=%d, %s), key %q (deleted and re-created along the chain: %v, never deleted: %v, pending write: %v), on %s",
						cb.idx, tipIdx, cb.height, kind, k, cl.recreated, cl.neverDeleted, cl.pending, where)
				}
				// fault-free: the reference, and the number of storage reads of the call
				w.ArmFailRead(0)
				got, err := call()
				nreads := w.Reads()
				r.Count("readfault.reference-reads", 1)
				if err != nil || got != want {
					return &hist.Problem{Sig: "snapshot|read-fault|fault-free-read-wrong", Detail: fmt.Sprintf(
						"%s answered %v / %v without any injected fault; the live reader answered %v when that block was the tip; %s", via, got, err, want, describe())}
				}
				for f := 1; f <= nreads; f++ {
					before := w.InjectedReadFailures()
					w.ArmFailRead(f)
					got, err := call()
					w.ArmFailRead(0)
					if w.InjectedReadFailures() == before {
						// the repeated call made fewer storage reads (caches filled meanwhile): no fault happened
						r.Count("readfault.calls-that-ended-before-the-armed-read", 1)
						continue
					}
					r.Count("readfault.faulted-reads", 1)
					if f == 1 {
						r.Count("readfault.faulted-reads.first-storage-read-of-the-call", 1)
					} else {
						r.Count("readfault.faulted-reads.later-storage-read-of-the-call", 1)
					}
					if cl.recreated {
						r.Count("readfault.faulted-reads.key-deleted-and-re-created", 1)
					}
					if cl.neverDeleted {
						r.Count("readfault.faulted-reads.key-written-never-deleted", 1)
					}
					if cl.pending {
						r.Count("readfault.faulted-reads.key-with-a-pending-write", 1)
					}
					if vi == 2 {
						r.Count("readfault.faulted-reads.tip-reader", 1)
					}
					if cb.idx < tipIdx {
						r.Count("readfault.faulted-reads.past-block", 1)
					}
					if err != nil {
						r.Count("readfault.faulted-reads.failed(not judged)", 1)
						continue
					}
					judged++
					if got == want {
						r.Count("readfault.faulted-reads.answered-as-recorded", 1)
						continue
					}
					class := "other"
					if neverWritten(got) {
						class = "never-written"
					}
					return &hist.Problem{Sig: sigReadFault + class, Detail: fmt.Sprintf(
						"%s answered %v WITHOUT an error while storage read %d of the %d reads of that call failed once with a transient (not 'not found') error; the live reader answered %v when that block was the tip "+
							"and the same call answers that without the fault; %s", via, got, f, nreads, want, describe())}
				}
				// nothing may be left behind by the failed reads
				got, err = call()
				judged++
				if err != nil || got != want {
					return &hist.Problem{Sig: "snapshot|read-fault|wrong-answer-after-failed-reads", Detail: fmt.Sprintf(
						"%s answered %v / %v with no fault armed, right after calls whose storage reads were failed one at a time (it answered %v before them); %s", via, got, err, want, describe())}
				}
			}
		}
	}
	r.Count("readfault.passes", 1)
	return nil
}
