package main

// Readers while the chain grows. The statement holds "for every B up to the current tip, unaffected
// by later blocks, by pending transactions and by deletions or re-creations of the key after B" -
// also for a reader that is not synchronised with the node's writers (RPC queries, the consensus'
// own readers run beside block processing). One chain (no reorganisation: every applied block stays
// on the main chain) is applied block by block through the engine's Walk / own-block paths, with
// pending writes, deletes and re-creations of the same keys admitted in between (every Walk rolls
// them back and re-admits them); reader goroutines keep reading snapshots of already applied
// blocks and compare with the recorded answers. Storage-latency jitter widens the windows between
// the look-ups of one read. A read that returns an ERROR is counted, not judged (failing is not
// answering); a read that ANSWERS must answer what the live reader answered at B.

import (
	"fmt"
	"math/rand"
	"sync"
	"sync/atomic"

	"verif/ev"
	"verif/gen"
	"verif/hist"
	"verif/memkv"
	sn "verif/simnode"
)

func concurrentReaders(r *ev.Run) {
	rounds := r.N(12, 200)
	var reads, errs, tipReads int64
	for round := 0; round < rounds; round++ {
		rng := rand.New(rand.NewSource(r.Seed*7919 + int64(round)))
		o := gen.DefaultOpts()
		o.KVShare = 80
		o.MaxDepth = 9
		o.MaxBlocks = 10
		t, err := gen.Generate(rng, o)
		if err != nil {
			r.Inconclusive("concurrent readers: generator: " + err.Error())
			return
		}
		// the deepest leaf's chain
		leaf := 0
		for _, b := range t.Blocks {
			if b.Height > t.Blocks[leaf].Height {
				leaf = b.Idx
			}
		}
		path := t.Path(leaf)
		cache := map[int]map[string]rec{}
		want := make([]map[string]rec, len(path))
		ok := true
		for i, j := range path {
			if want[i], err = record(t, cache, j); err != nil {
				ok = false
			}
		}
		s, err := hist.NewSUT(t)
		if err != nil || !ok {
			t.Drop()
			r.Inconclusive("concurrent readers: cannot set the scenario up")
			return
		}
		var applied int64 = -1 // index into path of the last block the state has fully applied
		var done int32
		var mu sync.Mutex
		var first *hist.Problem
		fail := func(p hist.Problem) {
			mu.Lock()
			if first == nil {
				first = &p
			}
			mu.Unlock()
			atomic.StoreInt32(&done, 1)
		}
		keys := keyUniverse()
		var wg sync.WaitGroup
		for g := 0; g < 4; g++ {
			wg.Add(1)
			go func(g int) {
				defer wg.Done()
				defer func() {
					if p := recover(); p != nil {
						fail(hist.Problem{Sig: "snapshot|concurrent|panic", Detail: fmt.Sprintf("a snapshot read beside block processing panicked: %v", p)})
					}
				}()
				lr := rand.New(rand.NewSource(r.Seed*31 + int64(round*10+g)))
				for atomic.LoadInt32(&done) == 0 {
					a := atomic.LoadInt64(&applied)
					if a < 0 {
						continue
					}
					i := int(lr.Int63n(a + 1))
					snap, err := s.N.State.CreateSnapshot(t.Blocks[path[i]].ID)
					if err != nil {
						atomic.AddInt64(&errs, 1)
						continue
					}
					for n := 0; n < 6; n++ {
						bk := keys[lr.Intn(len(keys))]
						k := bk[0] + "/" + bk[1]
						vd, err := snap.Get(bk[0], []byte(bk[1]))
						atomic.AddInt64(&reads, 1)
						if err != nil {
							atomic.AddInt64(&errs, 1)
							continue
						}
						got := rec{val: fmt.Sprintf("%x", vd.GetPureData().GetValue()), ver: fmt.Sprintf("%x_%d", vd.GetRefTxid(), vd.GetRefOffset())}
						if got != want[i][k] {
							fail(hist.Problem{Sig: "snapshot|concurrent|wrong-answer|past-block", Detail: fmt.Sprintf(
								"while the node was processing blocks / pending transactions, snapshot(block %d, h=%d).Get(%s) answered %v; the live reader answered %v when that block was the tip (chain applied up to h=%d)",
								path[i], t.Blocks[path[i]].Height, k, got, want[i][k], t.Blocks[path[a]].Height)})
							return
						}
					}
					if g == 0 {
						// the tip reader: the tip moves meanwhile, any tip between the two observations is right
						if tr, err := s.N.State.GetTipXMSnapshotReader(); err == nil {
							bk := keys[lr.Intn(len(keys))]
							a0 := atomic.LoadInt64(&applied)
							raw, err := tr.Get(bk[0], []byte(bk[1]))
							a1 := atomic.LoadInt64(&applied)
							atomic.AddInt64(&tipReads, 1)
							if err == nil {
								good := false
								for x := a0; x <= a1+1 && int(x) < len(path); x++ {
									good = good || fmt.Sprintf("%x", raw) == want[x][bk[0]+"/"+bk[1]].val
								}
								if !good {
									fail(hist.Problem{Sig: "snapshot|concurrent|wrong-answer|tip-reader", Detail: fmt.Sprintf(
										"GetTipXMSnapshotReader().Get(%s/%s) answered %x while the tip moved from h=%d to h=%d; the value at those tips is %v",
										bk[0], bk[1], raw, t.Blocks[path[a0]].Height, t.Blocks[path[a1]].Height, want[a0][bk[0]+"/"+bk[1]].val)})
									return
								}
							}
						}
					}
				}
			}(g)
		}
		memkv.SetJitter(r.Seed*977+int64(round), 4)
		// the writer: the engine's paths, with pending writes / deletes / re-creations in between
		func() {
			defer func() {
				if p := recover(); p != nil {
					if inc, isInc := p.(sn.Inconclusive); isInc {
						r.Inconclusive(inc.Why)
						return
					}
					fail(hist.Problem{Sig: "snapshot|concurrent|panic", Detail: fmt.Sprintf("block processing beside snapshot readers panicked: %v", p)})
				}
			}()
			for i, j := range path {
				if atomic.LoadInt32(&done) != 0 {
					break
				}
				if j != 0 {
					var op hist.Op
					switch {
					case rng.Intn(3) == 0 && s.LedgerTip() == s.Tip():
						op = s.Confirm(j)
						if op.Result == "ok" {
							op = s.Play(j)
						}
					default:
						op = s.Confirm(j)
						if len(op.Result) >= 2 && op.Result[:2] == "ok" {
							op = s.Walk(j, false)
						}
					}
					if len(op.Result) < 2 || op.Result[:2] != "ok" {
						// the pool may hold what makes Play fail (recorded C03 findings): the engine's path
						if op = s.Walk(j, false); op.Result != "ok" {
							fail(hist.Problem{Sig: "legal-op-failed|" + op.Kind, Detail: "applying the chain failed: " + op.String()})
							break
						}
					}
				}
				atomic.StoreInt64(&applied, int64(i))
				// pending traffic on the same keys: writes, deletes, re-creations; then walks in place
				// (what every received block does to the pool: roll back, re-admit)
				for n := 0; n < 3; n++ {
					bk := keys[rng.Intn(len(keys))]
					p := &sn.ProgBuilder{}
					switch rng.Intn(3) {
					case 0:
						p.Get(bk[0], []byte(bk[1])).Del(bk[0], []byte(bk[1]))
					case 1:
						p.Put(bk[0], []byte(bk[1]), []byte(fmt.Sprintf("p%d-%d", round, n)))
					default:
						p.Get(bk[0], []byte(bk[1])).Del(bk[0], []byte(bk[1])).Put(bk[0], []byte(bk[1]), []byte("again"))
					}
					if s.SubmitProg(rng, p) == "ok" {
						r.Count("conc.pending-kv-admitted", 1)
					}
				}
				for n := 0; n < 2; n++ {
					if err := s.N.Walk(s.N.StateTip(), false); err != nil {
						fail(hist.Problem{Sig: "legal-op-failed|walk", Detail: "walk to the state's own block failed: " + err.Error()})
					}
					r.Count("conc.pool-rollbacks", 1)
				}
			}
		}()
		atomic.StoreInt32(&done, 1)
		wg.Wait()
		memkv.SetJitter(0, 0)
		r.Case(fmt.Sprintf("concurrent-readers|%s", t.Shape()), true)
		r.Count("conc.rounds", 1)
		r.Count("conc.blocks-applied", int(atomic.LoadInt64(&applied))+1)
		s.N.Drop()
		t.Drop()
		if first != nil {
			r.Violation(first.Sig, first.Detail, map[string]interface{}{"round": round, "seed": r.Seed})
			break
		}
	}
	r.Count("conc.snapshot-reads", int(reads))
	r.Count("conc.tip-reads", int(tipReads))
	r.Count("conc.reads-that-failed(not judged)", int(errs))
	r.Evals(int(reads + tipReads))
}
