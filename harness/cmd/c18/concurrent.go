package main

// Readers while the chain grows. The statement holds "for every B up to the current tip, unaffected
// by later blocks, by pending transactions and by deletions or re-creations of the key after B" -
// also for a reader that is not synchronised with the node's writers (RPC queries, the consensus'
// own readers run beside block processing). One chain (no reorganisation: every applied block stays
// on the main chain) is applied block by block through the engine's paths, with pending writes,
// deletes and re-creations of the same keys admitted in between (every Walk rolls them back and
// re-admits them):
//   - the deepest chain of a generated tree as blocks of a peer (ledger confirm + Play, ledger
//     confirm + Walk, the engine's receive path Miner.ProcBlock);
//   - then blocks the node produces itself from its pool - i.e. from exactly those pending
//     overwrites / deletes / re-creations of the keys being read - with the engine's real miner
//     (packBlock, confirmBlockForMiner -> PlayForMiner), some of them handed back through the
//     receive path instead (a peer's block whose transactions the node already has pending).
//
// Two kinds of reader goroutines run meanwhile and compare with the recorded answers:
//   - readers of snapshots of ALREADY APPLIED blocks (and the tip reader, tolerant to the tip that
//     moves between the harness's two observations of the applied height);
//   - STRICT tip-by-id readers: `id := State.GetLatestBlockid()`, then reads through
//     CreateXMSnapshotReader(id) / CreateSnapshot(id) - the sequence GetTipXMSnapshotReader /
//     GetTipSnapshot are made of and the access-control manager and the validator election use.
//     The expected answer is a function of the block id alone (what the live reader of a
//     history-free node answered when that block was its tip), so nothing is tolerated: whatever
//     block the state machine names as its tip, the snapshot at that block has to answer with that
//     block's own writes already. These readers prefer the keys the tip block changes with respect
//     to its parent (the reads that can tell the two apart).
//
// Storage-latency jitter widens the windows between the look-ups of one read and before a batch
// becomes visible. A read that returns an ERROR is counted, not judged (failing is not answering);
// a read that ANSWERS must answer what the live reader answered at B.

import (
	"fmt"
	"math/rand"
	"sync"
	"sync/atomic"

	pb "github.com/xuperchain/xupercore/bcs/ledger/xledger/xldgpb"

	"verif/ev"
	"verif/gen"
	"verif/hist"
	"verif/memkv"
	sn "verif/simnode"
)

// chainBlock is one block of the chain applied in a round, with the recorded answers.
type chainBlock struct {
	idx     int // position on the chain (0 = genesis)
	id      []byte
	height  int64
	own     bool // produced by the node under test itself
	want    map[string]rec
	changed [][2]string // keys whose recorded answer differs from the parent's
}

func universeOf(n *sn.Node) (map[string]rec, error) {
	m := map[string]rec{}
	rd := n.State.CreateXMReader()
	for _, bk := range keyUniverse() {
		vd, err := rd.Get(bk[0], []byte(bk[1]))
		if err != nil {
			return nil, err
		}
		m[bk[0]+"/"+bk[1]] = rec{val: fmt.Sprintf("%x", vd.GetPureData().GetValue()), ver: fmt.Sprintf("%x_%d", vd.GetRefTxid(), vd.GetRefOffset())}
	}
	return m, nil
}

func changedKeys(parent, child map[string]rec) [][2]string {
	var out [][2]string
	for _, bk := range keyUniverse() {
		if k := bk[0] + "/" + bk[1]; parent[k] != child[k] {
			out = append(out, bk)
		}
	}
	return out
}

func okRes(res string) bool { return len(res) >= 2 && res[:2] == "ok" }

// sigNeverWritten: a read beside block / pool processing answered "never written" for a key that has
// been written (or deleted) as of the block read at. One signature for every kind of reader: the
// answer comes from XModel.Get (live table, then recycle table), below all of them.
const sigNeverWritten = "snapshot|concurrent|wrong-answer|never-written-for-a-written-key"

func neverWritten(x rec) bool { return x.val == "" && (x.ver == "" || x.ver == "_0") }

func concurrentReaders(r *ev.Run) {
	rounds := r.N(12, 200)
	ownPerRound := r.N(8, 12)
	var reads, errs, tipReads int64
	var strictReads, strictChanged, strictEarly, strictErrs, strictUnknown int64
	for round := 0; round < rounds; round++ {
		rng := rand.New(rand.NewSource(r.Seed*7919 + int64(round)))
		o := gen.DefaultOpts()
		o.KVShare = 80
		o.MaxDepth = 9
		o.MaxBlocks = 10
		t, err := gen.Generate(rng, o)
		if err != nil {
			r.Inconclusive("concurrent readers: generator: " + err.Error())
			return
		}
		// the deepest leaf's chain
		leaf := 0
		for _, b := range t.Blocks {
			if b.Height > t.Blocks[leaf].Height {
				leaf = b.Idx
			}
		}
		path := t.Path(leaf)
		cache := map[int]map[string]rec{}
		// the chain of the round: the tree's path, then the node's own blocks (appended by the writer
		// BEFORE the block reaches the node; readers learn about an entry through `byID` / `applied`)
		chain := make([]atomic.Value, len(path)+ownPerRound)
		at := func(i int) *chainBlock {
			if v := chain[i].Load(); v != nil {
				return v.(*chainBlock)
			}
			return nil
		}
		var byID sync.Map // string(block id) -> *chainBlock
		ok := true
		for i, j := range path {
			cb := &chainBlock{idx: i, id: t.Blocks[j].ID, height: t.Blocks[j].Height}
			if cb.want, err = record(t, cache, j); err != nil {
				ok = false
				break
			}
			if i > 0 {
				cb.changed = changedKeys(at(i-1).want, cb.want)
			}
			chain[i].Store(cb)
			byID.Store(string(cb.id), cb)
		}
		var s *hist.SUT
		var shadow *sn.Node // history-free node that follows the chain: records the answers for own blocks
		if ok {
			if s, err = hist.NewSUT(t); err == nil {
				shadow, err = sn.OpenOn(t.Blocks[leaf].Canon.Clone(), t.Opts.Cfg)
			}
		}
		if err != nil || !ok {
			if s != nil {
				s.N.Drop()
			}
			t.Drop()
			r.Inconclusive("concurrent readers: cannot set the scenario up")
			return
		}
		var applied int64 = -1 // index into chain of the last block the writer has seen fully applied (its operation returned)
		var done int32
		var mu sync.Mutex
		var first *hist.Problem
		fail := func(p hist.Problem) {
			mu.Lock()
			if first == nil {
				first = &p
			}
			mu.Unlock()
			atomic.StoreInt32(&done, 1)
		}
		keys := keyUniverse()
		var wg sync.WaitGroup
		for g := 0; g < 4; g++ {
			wg.Add(1)
			go func(g int) {
				defer wg.Done()
				defer func() {
					if p := recover(); p != nil {
						fail(hist.Problem{Sig: "snapshot|concurrent|panic", Detail: fmt.Sprintf("a snapshot read beside block processing panicked: %v", p)})
					}
				}()
				lr := rand.New(rand.NewSource(r.Seed*31 + int64(round*10+g)))
				for atomic.LoadInt32(&done) == 0 {
					a := atomic.LoadInt64(&applied)
					if a < 0 {
						continue
					}
					i := int(lr.Int63n(a + 1))
					snap, err := s.N.State.CreateSnapshot(at(i).id)
					if err != nil {
						atomic.AddInt64(&errs, 1)
						continue
					}
					for n := 0; n < 6; n++ {
						bk := keys[lr.Intn(len(keys))]
						k := bk[0] + "/" + bk[1]
						vd, err := snap.Get(bk[0], []byte(bk[1]))
						atomic.AddInt64(&reads, 1)
						if err != nil {
							atomic.AddInt64(&errs, 1)
							continue
						}
						got := rec{val: fmt.Sprintf("%x", vd.GetPureData().GetValue()), ver: fmt.Sprintf("%x_%d", vd.GetRefTxid(), vd.GetRefOffset())}
						if got != at(i).want[k] {
							sig := "snapshot|concurrent|wrong-answer|past-block"
							if neverWritten(got) {
								sig = sigNeverWritten
							}
							fail(hist.Problem{Sig: sig, Detail: fmt.Sprintf(
								"while the node was processing blocks / pending transactions, snapshot(chain block %d, h=%d).Get(%s) answered %v; the live reader answered %v when that block was the tip (chain applied up to h=%d)",
								i, at(i).height, k, got, at(i).want[k], at(int(a)).height)})
							return
						}
					}
					if g == 0 {
						// the tip reader: the tip moves meanwhile, any tip between the two observations is right
						// (the first observation is made BEFORE the reader - which fixes its block - is obtained)
						a0 := atomic.LoadInt64(&applied)
						if tr, err := s.N.State.GetTipXMSnapshotReader(); err == nil {
							bk := keys[lr.Intn(len(keys))]
							raw, err := tr.Get(bk[0], []byte(bk[1]))
							a1 := atomic.LoadInt64(&applied)
							atomic.AddInt64(&tipReads, 1)
							if err == nil {
								good := false
								for x := a0; x <= a1+1 && int(x) < len(chain) && at(int(x)) != nil; x++ {
									good = good || fmt.Sprintf("%x", raw) == at(int(x)).want[bk[0]+"/"+bk[1]].val
								}
								if !good {
									sig := "snapshot|concurrent|wrong-answer|tip-reader"
									if len(raw) == 0 {
										sig = sigNeverWritten
									}
									fail(hist.Problem{Sig: sig, Detail: fmt.Sprintf(
										"GetTipXMSnapshotReader().Get(%s/%s) answered %x while the tip moved from h=%d to h=%d; the value at those tips is %v",
										bk[0], bk[1], raw, at(int(a0)).height, at(int(a1)).height, at(int(a0)).want[bk[0]+"/"+bk[1]].val)})
									return
								}
							}
						}
					}
				}
			}(g)
		}
		// the strict tip-by-id readers
		for g := 0; g < 3; g++ {
			wg.Add(1)
			go func(g int) {
				defer wg.Done()
				defer func() {
					if p := recover(); p != nil {
						fail(hist.Problem{Sig: "snapshot|concurrent|panic", Detail: fmt.Sprintf("a snapshot read of the state's tip block beside block processing panicked: %v", p)})
					}
				}()
				lr := rand.New(rand.NewSource(r.Seed*43 + int64(round*10+g)))
				for it := 0; atomic.LoadInt32(&done) == 0; it++ {
					seen := atomic.LoadInt64(&applied)
					id := s.N.State.GetLatestBlockid()
					var get func(bk [2]string) (rec, error)
					via := "CreateXMSnapshotReader"
					if (it+g)%3 == 2 {
						via = "CreateSnapshot"
						snap, err := s.N.State.CreateSnapshot(id)
						if err != nil {
							atomic.AddInt64(&strictErrs, 1)
							continue
						}
						get = func(bk [2]string) (rec, error) {
							vd, err := snap.Get(bk[0], []byte(bk[1]))
							if err != nil {
								return rec{}, err
							}
							return rec{val: fmt.Sprintf("%x", vd.GetPureData().GetValue()), ver: fmt.Sprintf("%x_%d", vd.GetRefTxid(), vd.GetRefOffset())}, nil
						}
					} else {
						rd, err := s.N.State.CreateXMSnapshotReader(id)
						if err != nil {
							atomic.AddInt64(&strictErrs, 1)
							continue
						}
						get = func(bk [2]string) (rec, error) {
							raw, err := rd.Get(bk[0], []byte(bk[1]))
							return rec{val: fmt.Sprintf("%x", raw)}, err
						}
					}
					x, known := byID.Load(string(id))
					if !known {
						// not a block of the round's chain: nothing recorded for it, nothing to judge
						atomic.AddInt64(&strictUnknown, 1)
						continue
					}
					cb := x.(*chainBlock)
					for n := 0; n < 2; n++ {
						bk := keys[lr.Intn(len(keys))]
						byBlock := false
						if n == 0 && len(cb.changed) > 0 {
							bk, byBlock = cb.changed[lr.Intn(len(cb.changed))], true
						}
						k := bk[0] + "/" + bk[1]
						got, err := get(bk)
						if err != nil {
							atomic.AddInt64(&strictErrs, 1)
							continue
						}
						atomic.AddInt64(&strictReads, 1)
						if byBlock {
							atomic.AddInt64(&strictChanged, 1)
						}
						if int64(cb.idx) > seen {
							// the state machine named this block as its tip before the operation that applies it had returned
							atomic.AddInt64(&strictEarly, 1)
						}
						want := cb.want[k]
						if via == "CreateXMSnapshotReader" {
							want.ver = ""
						}
						if got == want {
							continue
						}
						sig, note := "snapshot|concurrent|wrong-answer|tip-by-id|other", ""
						asParent := false
						if cb.idx > 0 {
							pw := at(cb.idx - 1).want[k]
							if via == "CreateXMSnapshotReader" {
								pw.ver = ""
							}
							asParent = got == pw
						}
						switch fresh := int64(cb.idx) > seen; {
						case asParent && (fresh || !neverWritten(got)):
							sig, note = "snapshot|concurrent|wrong-answer|tip-by-id|answers-as-of-parent", " - that is the answer as of the block's PARENT"
						case neverWritten(got):
							sig, note = sigNeverWritten, " - i.e. never written"
						}
						again, aerr := get(bk)
						kind := "a peer's block"
						if cb.own {
							kind = "a block the node produced itself"
						}
						fail(hist.Problem{Sig: sig, Detail: fmt.Sprintf(
							"State.GetLatestBlockid() named chain block %d (h=%d, %s) as the state's tip; %s(that id).Get(%s) answered %v%s; the live reader answered %v when that block was the tip "+
								"(the writer had seen the chain applied up to block %d when the id was obtained; the same read repeated right afterwards: %v / %v)",
							cb.idx, cb.height, kind, via, k, got, note, want, seen, again, aerr)})
						return
					}
				}
			}(g)
		}
		memkv.SetJitter(r.Seed*977+int64(round), 4)
		// the writer: the engine's paths, with pending writes / deletes / re-creations in between
		func() {
			defer func() {
				if p := recover(); p != nil {
					if inc, isInc := p.(sn.Inconclusive); isInc {
						r.Inconclusive(inc.Why)
						return
					}
					fail(hist.Problem{Sig: "snapshot|concurrent|panic", Detail: fmt.Sprintf("block processing beside snapshot readers panicked: %v", p)})
				}
			}()
			step := 0
			// pending traffic on the same keys: writes, deletes, re-creations; then walks in place
			// (what every received block does to the pool: roll back, re-admit)
			traffic := func(progs, walks int) {
				for n := 0; n < progs; n++ {
					bk := keys[rng.Intn(len(keys))]
					p := &sn.ProgBuilder{}
					switch rng.Intn(3) {
					case 0:
						p.Get(bk[0], []byte(bk[1])).Del(bk[0], []byte(bk[1]))
					case 1:
						p.Put(bk[0], []byte(bk[1]), []byte(fmt.Sprintf("p%d-%d-%d", round, step, n)))
					default:
						p.Get(bk[0], []byte(bk[1])).Del(bk[0], []byte(bk[1])).Put(bk[0], []byte(bk[1]), []byte(fmt.Sprintf("again%d-%d", step, n)))
					}
					if s.SubmitProg(rng, p) == "ok" {
						r.Count("conc.pending-kv-admitted", 1)
					}
				}
				for n := 0; n < walks; n++ {
					if err := s.N.Walk(s.N.StateTip(), false); err != nil {
						fail(hist.Problem{Sig: "legal-op-failed|walk", Detail: "walk to the state's own block failed: " + err.Error()})
					}
					r.Count("conc.pool-rollbacks", 1)
				}
			}
			for i, j := range path {
				if atomic.LoadInt32(&done) != 0 {
					return
				}
				step++
				if j != 0 {
					var op hist.Op
					switch x := rng.Intn(4); {
					case x == 0 && s.LedgerTip() == s.Tip():
						op = s.Confirm(j)
						if op.Result == "ok" {
							op = s.Play(j)
						}
					case x == 1:
						if op = s.Receive(j); okRes(op.Result) {
							r.Count("conc.blocks-applied.receive-path", 1)
						} else if !s.Confirmed[j] {
							s.Confirm(j)
						}
					default:
						op = s.Confirm(j)
						if okRes(op.Result) {
							op = s.Walk(j, false)
						}
					}
					if !okRes(op.Result) || s.Tip() != j {
						// the pool may hold what makes Play fail (recorded C03 findings): the engine's path
						if op = s.Walk(j, false); op.Result != "ok" {
							fail(hist.Problem{Sig: "legal-op-failed|" + op.Kind, Detail: "applying the chain failed: " + op.String()})
							return
						}
					}
				}
				atomic.StoreInt64(&applied, int64(i))
				traffic(3, 2)
			}
			// the node's own blocks: its pool (the pending traffic on the keys being read) becomes the block
			last := t.Blocks[leaf]
			ts := int64(1000000)
			if last.Block != nil {
				ts = last.Block.Timestamp
			}
			for k := 0; k < ownPerRound; k++ {
				if atomic.LoadInt32(&done) != 0 {
					return
				}
				step++
				if k > 0 {
					traffic(4, 1)
				}
				ts += 10
				packed, err := s.N.PackBlock(sn.K(0), ts)
				if err != nil {
					fail(hist.Problem{Sig: "legal-op-failed|pack", Detail: "the node cannot pack a block from its own pool: " + err.Error()})
					return
				}
				b := sn.WireBlock(packed)
				// the answers as of this block, from the history-free node, BEFORE the block reaches the node under test
				if st := shadow.Confirm(b); !st.Succ {
					r.Count("conc.own-blocks-not-recordable", 1)
					return
				}
				if err := shadow.State.Play(b.Blockid); err != nil {
					r.Count("conc.own-blocks-not-recordable", 1)
					return
				}
				idx := len(path) + k
				cb := &chainBlock{idx: idx, id: b.Blockid, height: b.Height, own: true}
				if cb.want, err = universeOf(shadow); err != nil {
					r.Count("conc.own-blocks-not-recordable", 1)
					return
				}
				cb.changed = changedKeys(at(idx-1).want, cb.want)
				chain[idx].Store(cb)
				byID.Store(string(cb.id), cb)
				if len(cb.changed) > 0 {
					r.Count("conc.own-blocks.changing-a-read-key", 1)
				}
				if rng.Intn(3) == 0 {
					// as a peer's block whose transactions are all pending here: the engine's receive path
					err = s.N.ProcBlock(b)
					if err != nil || string(s.N.StateTip()) != string(b.Blockid) {
						fail(hist.Problem{Sig: "legal-op-failed|receive", Detail: fmt.Sprintf("the engine's receive path did not apply a block made of the node's own pending transactions: %v", err)})
						return
					}
					r.Count("conc.blocks-applied.receive-path", 1)
				} else {
					if err = s.N.ConfirmForMiner(cloneBlock(b)); err != nil || string(s.N.StateTip()) != string(b.Blockid) {
						fail(hist.Problem{Sig: "legal-op-failed|mine", Detail: fmt.Sprintf("the miner's own-block path did not apply a block packed from the node's pool: %v", err)})
						return
					}
					r.Count("conc.blocks-applied.own-block-path", 1)
				}
				r.Count("conc.own-blocks-applied", 1)
				atomic.StoreInt64(&applied, int64(idx))
			}
		}()
		atomic.StoreInt32(&done, 1)
		wg.Wait()
		memkv.SetJitter(0, 0)
		r.Case(fmt.Sprintf("concurrent-readers|%s", t.Shape()), true)
		r.Count("conc.rounds", 1)
		r.Count("conc.blocks-applied", int(atomic.LoadInt64(&applied))+1)
		for i := 1; i <= int(atomic.LoadInt64(&applied)); i++ {
			if len(at(i).changed) > 0 {
				r.Count("conc.blocks-applied.changing-a-read-key", 1)
			}
		}
		s.N.Drop()
		shadow.Drop()
		t.Drop()
		if first != nil {
			// taint control: the round was abandoned at its first wrong answer; a recorded (open) finding
			// does not end the search
			if !r.Violation(first.Sig, first.Detail, map[string]interface{}{"round": round, "seed": r.Seed, "ops": s.OpLog()}) {
				break
			}
		}
	}
	r.Count("conc.snapshot-reads", int(reads))
	r.Count("conc.tip-reads", int(tipReads))
	r.Count("conc.reads-that-failed(not judged)", int(errs))
	r.Count("conc.strict-tip-reads", int(strictReads))
	r.Count("conc.strict-tip-reads.key-changed-by-the-tip-block", int(strictChanged))
	r.Count("conc.strict-tip-reads.before-the-applying-op-returned", int(strictEarly))
	r.Count("conc.strict-tip-reads-that-failed(not judged)", int(strictErrs))
	r.Count("conc.strict-tip-reads.tip-not-on-the-chain(not judged)", int(strictUnknown))
	r.Evals(int(reads + tipReads + strictReads))
}

func cloneBlock(b *pb.InternalBlock) *pb.InternalBlock { return sn.CloneBlock(b) }
