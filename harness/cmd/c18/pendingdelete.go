package main

// Readers beside the pool's roll-back / re-admission, in isolation. "Unaffected ... by pending
// transactions and by deletions or re-creations of the key after B": keys written by the tip block
// B get PENDING deletes (and one a pending delete + re-creation); the node then does what every
// received block makes it do - Walk: roll the pending transactions back, re-admit them - over and
// over, without the tip moving. Reader goroutines read the keys through the snapshot at B
// (CreateXMSnapshotReader(B), CreateSnapshot(B), GetTipXMSnapshotReader) the whole time. The tip
// does not move and the chain has one block, so the expected answer is fixed: what B wrote. A read
// that fails is counted, not judged.
//
// (Found with the strict tip-by-id readers of concurrent.go: a pending delete moves the key from
// the live table to the recycle table, its roll-back moves it back, its re-admission moves it
// again; XModel.Get looks at the two tables one after the other.)

import (
	"fmt"
	"math/rand"
	"sync"
	"sync/atomic"

	"verif/ev"
	"verif/gen"
	"verif/hist"
	"verif/memkv"
	sn "verif/simnode"
)

func pendingDeleteReaders(r *ev.Run) {
	rounds := r.N(2, 8)
	walks := r.N(350, 1000)
	var reads, errs int64
	for round := 0; round < rounds; round++ {
		rng := rand.New(rand.NewSource(r.Seed*6151 + int64(round)))
		t, err := gen.NewTree(gen.DefaultOpts())
		if err != nil {
			r.Inconclusive("readers beside pool roll-back: generator: " + err.Error())
			return
		}
		s, err := hist.NewSUT(t)
		if err != nil {
			t.Drop()
			r.Inconclusive("readers beside pool roll-back: cannot start the node")
			return
		}
		var first *hist.Problem
		var mu sync.Mutex
		var done int32
		fail := func(p hist.Problem) {
			mu.Lock()
			if first == nil {
				first = &p
			}
			mu.Unlock()
			atomic.StoreInt32(&done, 1)
		}
		func() {
			defer func() {
				if p := recover(); p != nil {
					if inc, isInc := p.(sn.Inconclusive); isInc {
						r.Inconclusive(inc.Why)
						return
					}
					fail(hist.Problem{Sig: "snapshot|concurrent|panic", Detail: fmt.Sprintf("pool roll-back beside snapshot readers panicked: %v", p)})
				}
			}()
			// block 1 (own block) writes the keys
			all := keyUniverse()
			rng.Shuffle(len(all), func(i, j int) { all[i], all[j] = all[j], all[i] })
			keys := all[:3]
			want := map[string]string{}
			for i, bk := range keys {
				v := fmt.Sprintf("live%d-%d", round, i)
				p := &sn.ProgBuilder{}
				p.Put(bk[0], []byte(bk[1]), []byte(v))
				if res := s.SubmitProg(rng, p); res != "ok" {
					r.Inconclusive("readers beside pool roll-back: cannot write the keys: " + res)
					return
				}
				want[bk[0]+"/"+bk[1]] = fmt.Sprintf("%x", v)
			}
			b, err := s.N.PackBlock(sn.K(0), 5000)
			if err == nil {
				err = s.N.ConfirmForMiner(b)
			}
			if err != nil {
				fail(hist.Problem{Sig: "legal-op-failed|mine", Detail: "the node cannot produce a block from its pool: " + err.Error()})
				return
			}
			tip := s.N.StateTip()
			// pending: delete, delete, delete + re-create
			for i, bk := range keys {
				p := &sn.ProgBuilder{}
				p.Get(bk[0], []byte(bk[1])).Del(bk[0], []byte(bk[1]))
				if i == 2 {
					p.Put(bk[0], []byte(bk[1]), []byte("again"))
				}
				if res := s.SubmitProg(rng, p); res != "ok" {
					r.Inconclusive("readers beside pool roll-back: cannot admit the pending deletes: " + res)
					return
				}
			}
			var wg sync.WaitGroup
			for g := 0; g < 8; g++ {
				wg.Add(1)
				go func(g int) {
					defer wg.Done()
					defer func() {
						if p := recover(); p != nil {
							fail(hist.Problem{Sig: "snapshot|concurrent|panic", Detail: fmt.Sprintf("a snapshot read beside the pool's roll-back panicked: %v", p)})
						}
					}()
					for it := 0; atomic.LoadInt32(&done) == 0; it++ {
						bk := keys[(it+g)%len(keys)]
						k := bk[0] + "/" + bk[1]
						var got []byte
						var err error
						via := ""
						switch (it/3 + g) % 3 {
						case 0:
							via = "CreateXMSnapshotReader(tip block)"
							rd, cerr := s.N.State.CreateXMSnapshotReader(tip)
							if err = cerr; err == nil {
								got, err = rd.Get(bk[0], []byte(bk[1]))
							}
						case 1:
							via = "CreateSnapshot(tip block)"
							snap, cerr := s.N.State.CreateSnapshot(tip)
							if err = cerr; err == nil {
								vd, gerr := snap.Get(bk[0], []byte(bk[1]))
								if err = gerr; err == nil {
									got = vd.GetPureData().GetValue()
								}
							}
						default:
							via = "GetTipXMSnapshotReader()"
							rd, cerr := s.N.State.GetTipXMSnapshotReader()
							if err = cerr; err == nil {
								got, err = rd.Get(bk[0], []byte(bk[1]))
							}
						}
						if err != nil {
							atomic.AddInt64(&errs, 1)
							continue
						}
						atomic.AddInt64(&reads, 1)
						if fmt.Sprintf("%x", got) != want[k] {
							sig := "snapshot|concurrent|wrong-answer|beside-pool-rollback"
							if len(got) == 0 {
								sig = sigNeverWritten
							}
							fail(hist.Problem{Sig: sig, Detail: fmt.Sprintf(
								"block 1 (the state's tip, never moved) wrote %q = %s; with a pending delete of that key being rolled back and re-admitted by walks to the state's own block, %s.Get(%q) answered %q",
								k, want[k], via, k, got)})
							return
						}
					}
				}(g)
			}
			memkv.SetJitter(r.Seed*1409+int64(round), 4)
			for i := 0; i < walks && atomic.LoadInt32(&done) == 0; i++ {
				if err := s.N.Walk(tip, false); err != nil {
					fail(hist.Problem{Sig: "legal-op-failed|walk", Detail: "walk to the state's own block failed: " + err.Error()})
					break
				}
				r.Count("conc.pending-delete.pool-rollbacks", 1)
			}
			atomic.StoreInt32(&done, 1)
			wg.Wait()
			memkv.SetJitter(0, 0)
			if pool, _ := s.N.State.GetUnconfirmedTx(false); len(pool) > 0 {
				r.Count("conc.pending-delete.rounds-with-the-deletes-still-pending-at-the-end", 1)
			}
		}()
		memkv.SetJitter(0, 0)
		r.Case(fmt.Sprintf("readers-beside-pool-rollback|%d", round), true)
		s.N.Drop()
		t.Drop()
		if first != nil {
			if !r.Violation(first.Sig, first.Detail, map[string]interface{}{"round": round, "seed": r.Seed, "part": "pending-delete"}) {
				break
			}
		}
	}
	r.Count("conc.pending-delete.snapshot-reads", int(reads))
	r.Count("conc.pending-delete.reads-that-failed(not judged)", int(errs))
	r.Evals(int(reads))
}
