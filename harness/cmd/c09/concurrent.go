package main

import (
	"fmt"
	"sync"

	"github.com/golang/protobuf/proto"
	pb "github.com/xuperchain/xupercore/bcs/ledger/xledger/xldgpb"
	"github.com/xuperchain/xupercore/protos"

	sn "verif/simnode"
)

// concurrentCalls: pre-execution and verification run without any node-wide lock, so calls of ONE
// contract overlap all the time (clients pre-executing, the parallel verification of a block's
// dependency groups). Whatever the contract machinery shares between calls, each pre-execution
// must answer its own request - the same read / write set and response as when it runs alone -
// and every transaction that verifies alone must verify next to the others.
func (e *env) concurrentCalls() {
	r, n := e.r, e.n
	rounds := r.N(12, 120)
	for ri := 0; ri < rounds; ri++ {
		const G = 8
		progs := make([]string, G)
		for g := 0; g < G; g++ {
			key := []byte(fmt.Sprintf("cc-%d-%d", ri, g)) // disjoint keys: the calls do not conflict
			p := (&sn.ProgBuilder{}).Get("vb0", key).Put("vb0", key, []byte(fmt.Sprintf("v%d-%d", ri, g))).Event("ev", key)
			if g%2 == 1 {
				p = p.Scan("vb1", []byte("a"), []byte("c"), 3)
			}
			progs[g] = p.String()
		}
		alone := make([]*sn.PreExecResult, G)
		for g := 0; g < G; g++ {
			k := sn.K(g % 4)
			res, err := n.PreExec([]*protos.InvokeRequest{sn.VerifReq(sn.VerifContract, progs[g])}, k.Address, []string{k.Address})
			if err != nil {
				r.Violation("preexec|honest-program-refused", fmt.Sprintf("pre-execution of an honest program failed: %v", err), nil)
				return
			}
			alone[g] = res
		}
		together := make([]*sn.PreExecResult, G)
		errs := make([]error, G)
		var wg sync.WaitGroup
		start := make(chan struct{})
		for g := 0; g < G; g++ {
			wg.Add(1)
			go func(g int) {
				defer wg.Done()
				defer func() {
					if p := recover(); p != nil {
						errs[g] = fmt.Errorf("PANIC: %v", p)
					}
				}()
				<-start
				k := sn.K(g % 4)
				together[g], errs[g] = n.PreExec([]*protos.InvokeRequest{sn.VerifReq(sn.VerifContract, progs[g])}, k.Address, []string{k.Address})
			}(g)
		}
		close(start)
		wg.Wait()
		r.Count("concurrent.preexec-rounds", 1)
		same := func(a, b *sn.PreExecResult) string {
			if len(a.Inputs) != len(b.Inputs) || len(a.Outputs) != len(b.Outputs) || len(a.Responses) != len(b.Responses) {
				return fmt.Sprintf("%d/%d reads, %d/%d writes, %d/%d responses", len(b.Inputs), len(a.Inputs), len(b.Outputs), len(a.Outputs), len(b.Responses), len(a.Responses))
			}
			for i := range a.Inputs {
				if !proto.Equal(a.Inputs[i], b.Inputs[i]) {
					return fmt.Sprintf("read %d differs", i)
				}
			}
			for i := range a.Outputs {
				if !proto.Equal(a.Outputs[i], b.Outputs[i]) {
					return fmt.Sprintf("write %d differs: %s/%q=%q vs %q", i, a.Outputs[i].Bucket, a.Outputs[i].Key, b.Outputs[i].Value, a.Outputs[i].Value)
				}
			}
			for i := range a.Responses {
				if a.Responses[i].Status != b.Responses[i].Status || string(a.Responses[i].Body) != string(b.Responses[i].Body) {
					return fmt.Sprintf("response %d differs", i)
				}
			}
			return ""
		}
		for g := 0; g < G; g++ {
			r.Count("concurrent.preexecs", 1)
			if errs[g] != nil {
				r.Violation("preexec|concurrent-call-of-one-contract-fails", fmt.Sprintf("a pre-execution that succeeds alone fails next to %d others of the same contract: %v", G-1, errs[g]), nil)
				return
			}
			if d := same(alone[g], together[g]); d != "" {
				r.Violation("preexec|concurrent-call-answers-another-request", fmt.Sprintf("a pre-execution next to %d others of the same contract differs from the same call alone: %s", G-1, d), nil)
				return
			}
		}
		// the transactions assembled from them verify alone; they must verify at the same time too
		txs := make([]*pb.Transaction, G)
		for g := 0; g < G; g++ {
			x, err := e.assemble(alone[g], sn.K(g%4))
			if err != nil {
				return
			}
			if ok, verr := n.State.VerifyTx(sn.CloneTx(x)); !ok || verr != nil {
				r.Count("concurrent.not-verifiable-alone", 1)
				return // (gas / funds of the payer: not this part's subject)
			}
			txs[g] = x
		}
		oks := make([]bool, G)
		start2 := make(chan struct{})
		for g := 0; g < G; g++ {
			wg.Add(1)
			go func(g int) {
				defer wg.Done()
				defer func() { recover() }()
				<-start2
				ok, verr := n.State.VerifyTx(sn.CloneTx(txs[g]))
				oks[g] = ok && verr == nil
			}(g)
		}
		close(start2)
		wg.Wait()
		r.Count("concurrent.verify-rounds", 1)
		for g := 0; g < G; g++ {
			if !oks[g] {
				r.Violation("verify|valid-transaction-refused-next-to-concurrent-verifications", fmt.Sprintf("a contract transaction that verifies alone is refused when %d transactions of the same contract are verified at the same time", G), nil)
				return
			}
		}
	}
}
