// C09: contract effects - what was pre-executed is what is verified and committed.
package main

import (
	"bytes"
	"fmt"
	"math/big"
	"math/rand"
	"runtime/debug"
	"strings"

	"github.com/xuperchain/xupercore/bcs/ledger/xledger/state/utxo"
	pb "github.com/xuperchain/xupercore/bcs/ledger/xledger/xldgpb"
	"github.com/xuperchain/xupercore/kernel/contract"
	"github.com/xuperchain/xupercore/protos"

	"verif/corpus"
	"verif/ev"
	"verif/mutate"
	sn "verif/simnode"
)

var buckets = []string{"vb0", "vb1", "vb2"}
var keys = []string{"a", "b", "c", "d", "e"}

// genProg draws a program; depth bounds nested calls. uses reports whether it accounts resources.
func genProg(rng *rand.Rand, depth int, nops int, allowTransfer bool, self string) (*sn.ProgBuilder, []string) {
	p := &sn.ProgBuilder{}
	var kinds []string
	for i := 0; i < nops; i++ {
		b := buckets[rng.Intn(len(buckets))]
		k := []byte(keys[rng.Intn(len(keys))])
		switch x := rng.Intn(20); {
		case x < 5:
			p.Get(b, k)
			kinds = append(kinds, "get")
		case x < 10:
			p.Put(b, k, []byte(fmt.Sprintf("v%d", rng.Intn(100000))))
			kinds = append(kinds, "put")
		case x < 12:
			p.Del(b, k)
			kinds = append(kinds, "del")
		case x < 14:
			lo, hi := keys[rng.Intn(len(keys))], keys[rng.Intn(len(keys))]
			if lo > hi {
				lo, hi = hi, lo
			}
			p.Scan(b, []byte(lo), []byte(hi+"~"), rng.Intn(4)-1)
			kinds = append(kinds, "scan")
		case x < 15:
			p.Event(fmt.Sprintf("ev%d", rng.Intn(3)), []byte("body"))
			kinds = append(kinds, "event")
		case x < 16:
			p.Use(int64(rng.Intn(3000)), int64(rng.Intn(2000000)), int64(rng.Intn(40)), 0)
			kinds = append(kinds, "use")
		case x < 18 && depth > 0:
			other := sn.VerifContract2
			if self == sn.VerifContract2 {
				other = sn.VerifContract
			}
			inner, ik := genProg(rng, depth-1, 1+rng.Intn(4), false, other)
			p.Call(other, inner.String(), false)
			kinds = append(kinds, "call("+strings.Join(ik, ",")+")")
		case x < 19 && allowTransfer:
			if rng.Intn(3) == 0 {
				// a payment the contract cannot afford, noticed and survived, then the affordable one
				p.TryTransfer(sn.VerifContract, sn.K(rng.Intn(4)).Address, "100000000")
				kinds = append(kinds, "trytransfer(too-much)")
			}
			to, amt := sn.K(rng.Intn(4)).Address, fmt.Sprint(1+rng.Intn(9))
			p.Transfer(sn.VerifContract, to, amt)
			kinds = append(kinds, "transfer")
			if rng.Intn(3) == 0 { // the same payment once more: two identical contract-originated outputs
				p.Transfer(sn.VerifContract, to, amt)
				kinds = append(kinds, "transfer(same-again)")
			}
		default:
			p.Put(b, k, []byte(fmt.Sprintf("w%d", rng.Intn(100000)))).Get(b, k)
			kinds = append(kinds, "putget")
		}
	}
	return p, kinds
}

type env struct {
	r     *ev.Run
	w     *corpus.World
	n     *sn.Node
	nonce int
	ts    int64
}

// assemble turns a pre-execution result into a signed transaction the way a client does.
func (e *env) assemble(res *sn.PreExecResult, k *sn.Key) (*pb.Transaction, error) {
	e.nonce++
	spec := sn.TxSpec{Initiator: k.Address, Signers: []*sn.Key{k}, Nonce: fmt.Sprintf("c09-%d", e.nonce), Timestamp: 100000 + int64(e.nonce),
		InExt: res.Inputs, OutExt: res.Outputs, Requests: res.Requests}
	spec.Inputs = append(spec.Inputs, res.UtxoInputs...)
	for _, o := range res.UtxoOutputs {
		spec.Outputs = append(spec.Outputs, sn.Out{To: string(o.ToAddr), Raw: o.Amount, Frozen: o.FrozenHeight})
	}
	if res.GasUsed > 0 {
		ins, _, tot, err := e.n.State.SelectUtxos(k.Address, big.NewInt(res.GasUsed), false, false)
		if err != nil {
			return nil, err
		}
		spec.Inputs = append(spec.Inputs, ins...)
		spec.Outputs = append(spec.Outputs, sn.Out{To: "$", Amount: big.NewInt(res.GasUsed)})
		if rest := new(big.Int).Sub(tot, big.NewInt(res.GasUsed)); rest.Sign() > 0 {
			spec.Outputs = append(spec.Outputs, sn.Out{To: k.Address, Amount: rest})
		}
	}
	return sn.BuildTx(spec)
}

func uRows(n *sn.Node) map[string]string {
	m := map[string]string{}
	it := n.State.GetLDB().NewIteratorWithPrefix([]byte("U"))
	for it.Next() {
		m[string(it.Key())] = fmt.Sprintf("%x", it.Value())
	}
	it.Release()
	return m
}

func keyState(n *sn.Node) map[string]string {
	m := map[string]string{}
	rd := n.State.CreateXMReader()
	for _, b := range buckets {
		for _, k := range append(keys, "seed", "k", "x", "paid", "gone") {
			vd, err := rd.Get(b, []byte(k))
			if err != nil {
				m[b+"/"+k] = "ERR " + err.Error()
				continue
			}
			m[b+"/"+k] = fmt.Sprintf("%x|%x_%d", vd.GetPureData().GetValue(), vd.GetRefTxid(), vd.GetRefOffset())
		}
	}
	return m
}

func main() {
	r := ev.Start("C09", "exploration",
		"programs of the $verif kernel contracts (3-25 ops: get / put / delete / bounded and early-stopped range scans / events / resource use / nested calls to a second contract up to depth 3 / "+
			"contract-originated transfers; failing programs; nested failures swallowed by the caller) over prior states produced by earlier committed programs on a chain that charges gas; "+
			"three-way agreement per program: pre-execution result -> signed transaction -> VerifyTx true -> DoTx ok -> the state changes by exactly the write set (keys, values, versions; "+
			"transient bucket not stored) and exactly the declared outputs; pre-execution itself changes no observable and writes nothing; tampering: schema-walk mutants of read set, write "+
			"set, requests, limits, fee output, transient entries and token outputs of contract-paying transactions, re-signed and re-identified so that only the semantic check can object -> "+
			"must be rejected when the statement says so; a case = one program or one tampered variant; distinct by op-kind sequence / mutant path; non-trivial = program writes or transfers")
	defer sn.CleanupScratch()
	w, err := corpus.BuildOpt(sn.DefaultConfig(), 35)
	if err != nil {
		corpusFailure(r, "cannot build base world: ", err)
		r.Finish()
	}
	e := &env{r: r, w: w, n: w.N, ts: 6000}
	nprog := r.N(1500, 12000)
	height := int64(2)
	var block []*pb.Transaction
	for i := 0; i < nprog; i++ {
		rng := rand.New(rand.NewSource(r.Seed*99991 + int64(i)))
		e.program(rng, i, &block)
		// every few programs: pack what was admitted into a block so that prior state grows
		if len(block) >= 4 || (i%7 == 6 && len(block) > 0) {
			e.ts += 10
			b, err := e.n.FormatBlock(e.n.StateTip(), height, sn.K(0), e.ts, block, true)
			if err == nil {
				if st := e.n.Confirm(b); st.Succ {
					// replica check: a node that never saw the pool replays the block
					if err := e.n.Walk(b.Blockid, false); err != nil {
						r.Violation("commit|block-of-admitted-programs-not-replayable", fmt.Sprintf("walk to a block made of admitted contract transactions failed: %v %v", err, e.n.Log.Tail(3)), nil)
						break
					}
					height++
					r.Count("blocks", 1)
				}
			}
			block = nil
		}
	}
	e.tamper()
	e.concurrentCalls()
	r.Floor("concurrent.preexec-rounds", 10)
	r.Floor("concurrent.verify-rounds", 8)
	r.Floor("programs.committed", 100)
	r.Floor("programs.with-nested-call", 30)
	r.Floor("programs.with-transfer", 10)
	r.Floor("programs.with-gas", 30)
	r.Floor("programs.failing", 10)
	r.Floor("tamper.variants", 300)
	r.Floor("tamper.must-reject", 150)
	r.Floor("tamper.underpaid", 3)
	r.Floor("tamper.underpaid-multi-request", 1)
	r.Floor("tamper.program-variants", 1000)
	r.Floor("preexec.no-trace-checked", 100)
	r.Assume("kernel contracts share sandbox, bridge, verification and commit paths with user contracts but not the VM-specific syscall marshalling (wasm / native / EVM are not runnable offline)")
	r.Assume("pre-execution is the engine's real Chain.PreExec on a Chain built over the node's components (verif shim VerifNewChain)")
	r.Finish()
}

func (e *env) program(rng *rand.Rand, i int, block *[]*pb.Transaction) {
	r, n := e.r, e.n
	defer func() {
		if p := recover(); p != nil {
			if inc, ok := p.(sn.Inconclusive); ok {
				r.Inconclusive(inc.Why)
				return
			}
			r.Violation("panic|"+strings.SplitN(fmt.Sprint(p), "\n", 2)[0], fmt.Sprintf("panic in program %d: %v\n%s", i, p, debug.Stack()), nil)
		}
	}()
	failing := rng.Intn(12) == 0
	swallow := rng.Intn(10) == 0
	depth := rng.Intn(2)
	if rng.Intn(15) == 0 {
		depth = 2 + rng.Intn(2) // deeper nesting re-enters a contract of the call chain: must fail cleanly
	}
	p, kinds := genProg(rng, depth, 3+rng.Intn(23), rng.Intn(6) == 0, sn.VerifContract)
	if failing {
		p.Fail()
		kinds = append(kinds, "fail")
	}
	if swallow {
		inner := (&sn.ProgBuilder{}).Put("vb2", []byte("swallowed"), []byte(fmt.Sprint(i))).Fail()
		p.Call(sn.VerifContract2, inner.String(), true)
		kinds = append(kinds, "trycall(put,fail)")
	}
	shape := strings.Join(kinds, ",")
	k := sn.K(rng.Intn(4))
	// ---- pre-execution leaves no trace ----
	beforeKeys, beforeU, beforeLog := keyState(n), uRows(n), n.World.LogLen()
	res, perr := n.PreExec([]*protos.InvokeRequest{sn.VerifReq(sn.VerifContract, p.String())}, k.Address, []string{k.Address})
	if n.World.LogLen() != beforeLog || !sameMap(beforeKeys, keyState(n)) || !sameMap(beforeU, uRows(n)) {
		r.Violation("preexec|left-a-trace", "pre-execution changed stored data or answers; program: "+shape, map[string]interface{}{"program": p.String()})
		return
	}
	r.Count("preexec.no-trace-checked", 1)
	writes := strings.Contains(shape, "put") || strings.Contains(shape, "del") || strings.Contains(shape, "transfer")
	r.Case(shape, writes)
	if perr != nil {
		if failing {
			r.Count("programs.failing", 1)
		} else {
			r.Count("programs.preexec-error", 1) // e.g. contract funds exhausted
		}
		return
	}
	if failing {
		r.Violation("preexec|failing-program-succeeded", "a program ending in `fail` pre-executed successfully: "+shape, map[string]interface{}{"program": p.String()})
		return
	}
	if swallow {
		for _, o := range res.Outputs {
			if o.Bucket == "vb2" && string(o.Key) == "swallowed" {
				r.Violation("failed-call|effects-of-failed-nested-call-kept", "a nested call that failed (its error was swallowed by the caller) left its write in the write set: vb2/swallowed",
					map[string]interface{}{"program": p.String()})
				return
			}
		}
	}
	x, err := e.assemble(res, k)
	if err != nil {
		r.Count("programs.not-assembled", 1)
		return
	}
	if ok, verr := n.State.VerifyTx(x); !ok || verr != nil {
		r.Violation("verify|pre-executed-transaction-rejected", fmt.Sprintf("the transaction assembled from a pre-execution on the same state is rejected: %v; program: %s; log %v", verr, shape, n.Log.Tail(3)),
			map[string]interface{}{"program": p.String()})
		return
	}
	// ---- tamper oracle on a sample of the random programs (read / write set only: whether an
	// edited request must be rejected depends on the program's meaning, which only the fixed
	// corpus items make decidable) ----
	if every := r.N(20, 10); i%every == 0 && len(x.TxOutputsExt) > 0 {
		it := corpus.Item{Name: "program", Tx: x, Signers: []*sn.Key{k}}
		for _, m := range mutate.All(x) {
			f := m.Field()
			if f != "TxInputsExt" && f != "TxOutputsExt" {
				continue
			}
			must, why := mustReject(it, m)
			if !must {
				continue
			}
			y, err := it.Resign(m.Msg.(*pb.Transaction))
			if err != nil {
				continue
			}
			ok, verr := n.State.VerifyTx(y)
			acc := ok && verr == nil
			if acc {
				if tw, err := n.Twin(); err == nil {
					if tw.State.DoTx(sn.CloneTx(y)) != nil {
						acc = false
					}
					tw.Drop()
				}
			}
			r.Count("tamper.program-variants", 1)
			r.Case(fmt.Sprintf("tamper-program|%d|%s|%s", i, m.Path, m.Kind), true)
			if acc {
				r.Violation("tamper-accepted|"+why, fmt.Sprintf("program transaction with %s %s (re-signed, id recomputed) is still accepted: %s; program %s", m.Path, m.Kind, why, shape),
					map[string]interface{}{"program": p.String(), "path": m.Path, "kind": m.Kind})
				break
			}
		}
	}
	if err := n.State.DoTx(sn.CloneTx(x)); err != nil {
		r.Violation("commit|pre-executed-transaction-refused", fmt.Sprintf("DoTx refuses a verified pre-executed transaction: %v; program %s", err, shape), map[string]interface{}{"program": p.String()})
		return
	}
	*block = append(*block, x)
	r.Count("programs.committed", 1)
	if strings.Contains(shape, "call(") {
		r.Count("programs.with-nested-call", 1)
	}
	if len(res.UtxoInputs) > 0 {
		r.Count("programs.with-transfer", 1)
	}
	if res.GasUsed > 0 {
		r.Count("programs.with-gas", 1)
	}
	// ---- committed state == previous state + exactly the write set ----
	afterKeys, afterU := keyState(n), uRows(n)
	written := map[string]bool{}
	for off, o := range x.TxOutputsExt {
		kk := o.Bucket + "/" + string(o.Key)
		if o.Bucket == "$transient" {
			if _, stored := afterKeys[kk]; stored && !strings.HasPrefix(afterKeys[kk], "|") {
				r.Violation("commit|transient-bucket-stored", "a transient-bucket entry was stored: "+kk, nil)
			}
			continue
		}
		written[kk] = true
		want := fmt.Sprintf("%x|%x_%d", o.Value, x.Txid, off)
		if got, ok := afterKeys[kk]; ok && got != want {
			r.Violation("commit|written-key-has-other-value", fmt.Sprintf("after commit key %s reads %s, write set says %s; program %s", kk, got, want, shape), map[string]interface{}{"program": p.String()})
			return
		}
	}
	for kk, v := range beforeKeys {
		if !written[kk] && afterKeys[kk] != v {
			r.Violation("commit|unwritten-key-changed", fmt.Sprintf("key %s changed from %s to %s although it is not in the write set; program %s", kk, v, afterKeys[kk], shape), map[string]interface{}{"program": p.String()})
			return
		}
	}
	wantU := map[string]string{}
	for kk, v := range beforeU {
		wantU[kk] = v
	}
	for _, in := range x.TxInputs {
		delete(wantU, utxo.GenUtxoKeyWithPrefix(in.FromAddr, in.RefTxid, in.RefOffset))
	}
	for off, o := range x.TxOutputs {
		amt := new(big.Int).SetBytes(o.Amount)
		if bytes.Equal(o.ToAddr, []byte("$")) || amt.Sign() == 0 {
			continue
		}
		item := &utxo.UtxoItem{Amount: amt, FrozenHeight: o.FrozenHeight}
		buf, _ := item.Dumps()
		wantU[utxo.GenUtxoKeyWithPrefix(o.ToAddr, x.Txid, int32(off))] = fmt.Sprintf("%x", buf)
	}
	if !sameMap(wantU, afterU) {
		r.Violation("commit|outputs-differ-from-declared", "after commit the unspent outputs are not (previous - inputs + declared outputs); program "+shape, map[string]interface{}{"program": p.String()})
		return
	}
	if i < 3 {
		r.Sample(map[string]interface{}{"program": strings.Split(p.String(), "\n"), "read_set": len(res.Inputs), "write_set": len(res.Outputs), "gas": res.GasUsed, "contract_inputs": len(res.UtxoInputs)})
	}
	_ = contract.MaxLimits
}

// corpusFailure: the corpus is made of honest transactions - pre-executed on the node, assembled,
// signed. When the node refuses one that calls a contract, the first sentence of the statement is
// broken; any other failure to build it leaves the run without a verdict.
func corpusFailure(r *ev.Run, what string, err error) {
	msg := err.Error()
	if strings.Contains(msg, "does not verify") && strings.Contains(msg, "corpus: contract") {
		r.Violation("verify|pre-executed-transaction-rejected|corpus", "an honest corpus transaction (pre-executed, assembled, signed, submitted against the same state) is refused: "+msg, nil)
		return
	}
	r.Inconclusive(what + msg)
}

func sameOutputMultiset(a, b []*protos.TxOutput) bool {
	if len(a) != len(b) {
		return false
	}
	cnt := map[string]int{}
	key := func(o *protos.TxOutput) string {
		return fmt.Sprintf("%s|%s|%d", o.ToAddr, new(big.Int).SetBytes(o.Amount), o.FrozenHeight)
	}
	for _, o := range a {
		cnt[key(o)]++
	}
	for _, o := range b {
		cnt[key(o)]--
	}
	for _, v := range cnt {
		if v != 0 {
			return false
		}
	}
	return true
}

func sameMap(a, b map[string]string) bool {
	if len(a) != len(b) {
		return false
	}
	for k, v := range a {
		if b[k] != v {
			return false
		}
	}
	return true
}

// tamper: schema-walk mutants of the contract transactions of the corpus, re-signed.
func (e *env) tamper() {
	r := e.r
	w, err := corpus.Build(sn.DefaultConfig()) // fresh world: every item valid on its state
	if err != nil {
		corpusFailure(r, "cannot rebuild corpus for tampering: ", err)
		return
	}
	n := w.N
	for _, it := range w.Items {
		if len(it.Tx.ContractRequests) == 0 {
			continue
		}
		for _, m := range mutate.All(it.Tx) {
			f := m.Field()
			if f != "TxInputsExt" && f != "TxOutputsExt" && f != "ContractRequests" && f != "TxOutputs" && f != "TxInputs" {
				continue
			}
			must, why := mustReject(it, m)
			y, err := it.Resign(m.Msg.(*pb.Transaction))
			if err != nil {
				continue
			}
			ok, verr := n.State.VerifyTx(y)
			acc := ok && verr == nil
			if acc && must {
				// verification passed: does admission (which checks sums and versions) also pass?
				if tw, err := n.Twin(); err == nil {
					if tw.State.DoTx(sn.CloneTx(y)) != nil {
						acc = false
						r.Count("tamper.rejected-by-admission-only", 1)
					}
					tw.Drop()
				}
			}
			r.Case("tamper|"+it.Name+"|"+m.Path+"|"+m.Kind, must)
			r.Count("tamper.variants", 1)
			if must {
				r.Count("tamper.must-reject", 1)
			}
			if acc && must {
				r.Violation("tamper-accepted|"+why, fmt.Sprintf("transaction %s with %s %s (re-signed, id recomputed) still verifies: %s", it.Name, m.Path, m.Kind, why),
					map[string]string{"item": it.Name, "path": m.Path, "kind": m.Kind})
			}
		}
		// under-paying: fee output below the gas the execution uses (the items whose fee is exactly
		// the gas pre-execution reported): one unit short, and - decisive when a transaction carries
		// several charged requests - half of it, which still covers every single request
		for i, o := range it.Tx.TxOutputs {
			if string(o.ToAddr) != "$" || (it.Name != "contract" && it.Name != "contract-two-requests") {
				continue
			}
			fee := new(big.Int).SetBytes(o.Amount)
			if fee.Sign() <= 0 || fee.Cmp(big.NewInt(1)) <= 0 {
				continue
			}
			shorts := map[string]*big.Int{"fee-minus-one": big.NewInt(1)}
			if len(it.Tx.ContractRequests) > 1 {
				half := new(big.Int).Div(fee, big.NewInt(int64(len(it.Tx.ContractRequests))))
				shorts["fee-covers-one-request-only"] = new(big.Int).Sub(fee, half)                       // pays fee/n
				shorts["fee-covers-all-but-one-unit-of-a-request"] = new(big.Int).Sub(half, big.NewInt(0)) // pays fee - fee/n
				r.Count("tamper.underpaid-multi-request", 1)
			}
			for name, short := range shorts {
				if short.Sign() <= 0 || short.Cmp(fee) >= 0 {
					continue
				}
				y := sn.CloneTx(it.Tx)
				// move the shortfall from the fee to the change output
				y.TxOutputs[i].Amount = new(big.Int).Sub(fee, short).Bytes()
				for j, c := range y.TxOutputs {
					if j != i && string(c.ToAddr) == it.Tx.Initiator {
						c.Amount = new(big.Int).Add(new(big.Int).SetBytes(c.Amount), short).Bytes()
						z, err := it.Resign(y)
						if err == nil {
							ok, verr := n.State.VerifyTx(z)
							r.Count("tamper.variants", 1)
							r.Count("tamper.must-reject", 1)
							r.Count("tamper.underpaid", 1)
							r.Case("tamper|"+it.Name+"|"+name, true)
							if ok && verr == nil {
								r.Violation("tamper-accepted|pays-less-than-the-execution-uses|"+name, fmt.Sprintf("transaction %s (%d charged requests, execution uses %s) whose fee output is %s short still verifies", it.Name, len(it.Tx.ContractRequests), fee, short), nil)
							}
						}
						break
					}
				}
			}
		}
	}
}

// mustReject decides from the statement whether a re-signed variant has to be rejected.
func mustReject(it corpus.Item, m mutate.Mutant) (bool, string) {
	path, kind := m.Path, m.Kind
	field := m.Field()
	switch field {
	case "TxInputsExt":
		if strings.HasSuffix(path, ".RefTxid") || strings.HasSuffix(path, ".RefOffset") {
			// a declared read at another version than the current one
			var idx int
			fmt.Sscanf(path, "TxInputsExt[%d]", &idx)
			if strings.HasSuffix(path, ".RefOffset") && (idx >= len(it.Tx.TxInputsExt) || len(it.Tx.TxInputsExt[idx].RefTxid) == 0) {
				return false, "" // the offset means nothing for a never-written key
			}
			if strings.HasSuffix(path, ".RefTxid") && (kind == "empty" || kind == "truncate") {
				return false, "" // could turn into the 'never written' version of an unwritten key
			}
			return true, "declared-read-not-current"
		}
		return false, "" // extra / fewer / reordered reads: the statement allows a larger read set
	case "TxOutputsExt":
		if strings.HasPrefix(kind, "swap") {
			return false, "" // same set of writes in another order
		}
		if strings.Contains(path, "|") {
			return true, "declared-writes-differ-from-re-execution"
		}
		return true, "declared-writes-differ-from-re-execution"
	case "ContractRequests":
		switch {
		case strings.HasSuffix(path, ".Limit") && (kind == "plus1" || kind == "big"):
			return false, "" // a higher limit is fine while the fee covers it
		case strings.HasSuffix(path, ".Limit"):
			return false, "" // lower limit: rejected only if below the real use (not decidable here without re-running)
		case strings.HasSuffix(path, ".Type"), strings.Contains(path, "ResourceLimits") && !strings.Contains(path, "."):
			return false, ""
		case strings.Contains(path, "ResourceLimits"):
			return false, ""
		case strings.HasSuffix(path, ".Amount"):
			return true, "request-amount-differs-from-outputs-to-contract"
		case strings.HasSuffix(path, ".Args") || strings.HasSuffix(path, ".MethodName") || strings.HasSuffix(path, ".ContractName") || strings.HasSuffix(path, ".ModuleName"):
			if kind == "map-add" {
				return false, "" // an unused extra argument does not change the execution
			}
			return true, "requests-differ-from-what-produced-the-declared-writes"
		case path == "ContractRequests" && (strings.HasPrefix(kind, "dup") || strings.HasPrefix(kind, "swap")):
			return false, "" // running an idempotent request twice / in another order may produce the same writes
		case path == "ContractRequests":
			return true, "requests-differ-from-what-produced-the-declared-writes"
		}
		return false, ""
	case "TxOutputs", "TxInputs":
		if !strings.HasPrefix(it.Name, "contract-originated-transfer") {
			return false, "" // ordinary token fields: C07 / C02
		}
		if field == "TxOutputs" && sameOutputMultiset(it.Tx.TxOutputs, m.Msg.(*pb.Transaction).TxOutputs) {
			return false, "" // repeated payments: replacing one by a copy of its twin changes nothing
		}
		// the contract pays: every token input / output of this transaction is contract-originated
		if strings.HasSuffix(path, ".ToAddr") || strings.HasSuffix(path, ".Amount") || strings.HasPrefix(kind, "drop") || strings.HasPrefix(kind, "dup") || kind == "append-fresh" {
			if strings.HasSuffix(path, ".Amount") && (kind == "extend-front") {
				return false, "" // leading zero byte: same number
			}
			return true, "contract-originated-transfer-differs-from-re-execution"
		}
		return false, ""
	}
	return false, ""
}
