package main

// Proposal path after commits: a replica follows an honest chain of proposals 1..L (every justify
// a properly signed certificate, every block confirmed), which moves the root of its pending tree
// away from the genesis proposal. Then a validator sends proposals whose justify certificate names
// one of the stored proposals - the current root, the highest certified one, an ordinary ancestor -
// and carries too few valid signatures (none; one less than the quorum; quorum-many copies of one
// member; non-members). Whatever the certificate names, such a proposal must not be taken: not
// stored in the pending tree, HighQC unmoved. (A justify over the chain's genesis proposal is
// exempt by construction - nothing certifies genesis - and is not judged.)

import (
	"container/list"
	"encoding/json"
	"fmt"
	"math/rand"

	bft "github.com/xuperchain/xupercore/kernel/consensus/base/driver/chained-bft"
	cCrypto "github.com/xuperchain/xupercore/kernel/consensus/base/driver/chained-bft/crypto"
	bftpb "github.com/xuperchain/xupercore/kernel/consensus/base/driver/chained-bft/pb"
	"github.com/xuperchain/xupercore/kernel/network/p2p"
	"github.com/xuperchain/xupercore/protos"

	"verif/ev"
	sn "verif/simnode"
)

func proposalPathPart(r *ev.Run, m *Material) {
	trials := r.N(40, 600)
	for t := 0; t < trials; t++ {
		rng := rand.New(rand.NewSource(caseSeed(r.Seed, 9800, t)))
		n := []int{3, 4, 5, 7}[rng.Intn(4)]
		T := Threshold(n)
		set := rng.Perm(sn.NumKeys)[:n]
		replica := n - 1
		me := m.ids[set[replica]]
		log := sn.NewCapLogger()
		idOf := func(v int64) []byte { return []byte{0xC0, byte(v)} }
		root := &bft.ProposalNode{In: &bft.QuorumCert{VoteInfo: &bft.VoteInfo{ProposalId: idOf(0), ProposalView: 0}, LedgerCommitInfo: &bft.LedgerCommitInfo{CommitStateId: idOf(0)}}}
		tree := &bft.QCPendingTree{Genesis: root, Root: root, HighQC: root, CommitQC: root, Log: log, OrphanList: list.New(), OrphanMap: map[string]bool{}}
		cry := make([]*cCrypto.CBFTCrypto, n)
		var addrs []string
		for i := 0; i < n; i++ {
			cry[i] = cCrypto.NewCBFTCrypto(m.AddressOf(m.ids[set[i]]), sn.Crypto())
			addrs = append(addrs, m.ids[set[i]].Address)
		}
		rules := &bft.DefaultSaftyRules{Crypto: cry[replica], QcTree: tree, Log: log}
		leader := 0
		el := &selection{vals: addrs, leader: addrs[leader]}
		smr := bft.NewSmr(collBc, me.Address, log, &snet{account: me.Address}, cry[replica], &bft.DefaultPaceMaker{CurrentView: 0}, rules, el, tree)
		qcOn := func(v int64, signers []int, commit bool) *bft.QuorumCert {
			qc := &bft.QuorumCert{VoteInfo: &bft.VoteInfo{ProposalId: idOf(v), ProposalView: v}}
			if v > 0 {
				qc.VoteInfo.ParentId, qc.VoteInfo.ParentView = idOf(v-1), v-1
			}
			if commit {
				qc.LedgerCommitInfo = &bft.LedgerCommitInfo{CommitStateId: idOf(0)}
			}
			for _, s := range signers {
				var sg *bftpb.QuorumCertSign
				var err error
				if s >= 0 {
					sg, err = cry[s].SignVoteMsg(idOf(v))
				} else { // a non-member
					out := cCrypto.NewCBFTCrypto(m.AddressOf(m.ids[outsider(set)]), sn.Crypto())
					sg, err = out.SignVoteMsg(idOf(v))
				}
				if err == nil {
					qc.SignInfos = append(qc.SignInfos, sg)
				}
			}
			return qc
		}
		deliver := func(view int64, id []byte, justify *bft.QuorumCert) {
			jb, _ := json.Marshal(justify)
			pm := &bftpb.ProposalMsg{ProposalView: view, ProposalId: id, Timestamp: view, JustifyQC: jb}
			if _, err := cry[leader].SignProposalMsg(pm); err != nil {
				return
			}
			func() {
				defer func() {
					if p := recover(); p != nil {
						r.Violation("qc|proposal-path|panic", fmt.Sprintf("handling a proposal panicked: %v", p), nil)
					}
				}()
				smr.VerifHandleProposal(p2p.NewMessage(protos.XuperMessage_CHAINED_BFT_NEW_PROPOSAL_MSG, pm, p2p.WithBCName(collBc)))
			}()
		}
		// quorum signers: T members other than the replica (the replica is the one checking)
		var quorum []int
		for i := 0; i < n && len(quorum) < T; i++ {
			if i != replica {
				quorum = append(quorum, i)
			}
		}
		L := int64(5 + rng.Intn(5))
		okSetup := true
		for v := int64(1); v <= L; v++ {
			var j *bft.QuorumCert
			if v == 1 {
				j = &bft.QuorumCert{VoteInfo: &bft.VoteInfo{ProposalId: idOf(0), ProposalView: 0}}
			} else {
				j = qcOn(v-1, quorum, true)
			}
			deliver(v, idOf(v), j)
			if tree.DFSQueryNode(idOf(v)) == nil {
				okSetup = false
				break
			}
			smr.UpdateQcStatus(&bft.ProposalNode{In: &bft.QuorumCert{VoteInfo: &bft.VoteInfo{ProposalId: idOf(v), ProposalView: v, ParentId: idOf(v - 1), ParentView: v - 1}}})
		}
		if !okSetup {
			r.Count("proposalpath.setup-not-taken", 1)
			continue
		}
		rootMoved := string(tree.GetRootQC().In.GetProposalId()) != string(idOf(0))
		if rootMoved {
			r.Count("proposalpath.root-moved", 1)
		}
		r.Count("proposalpath.trials", 1)
		// ---- weak certificates over every stored proposal ----
		weak := map[string][]int{"no-signature": {}, "one-less-than-quorum": quorum[:len(quorum)-1], "non-members-only": negs(T)}
		if T >= 2 {
			rep := make([]int, T)
			for i := range rep {
				rep[i] = quorum[0]
			}
			weak["one-member-repeated"] = rep
		}
		evil := byte(0)
		for v := int64(1); v <= L; v++ {
			if tree.DFSQueryNode(idOf(v)) == nil {
				continue // pruned by a commit
			}
			what := "ordinary-stored-proposal"
			if string(tree.GetRootQC().In.GetProposalId()) == string(idOf(v)) {
				what = "current-root"
			} else if string(tree.GetHighQC().In.GetProposalId()) == string(idOf(v)) {
				what = "highest-certified"
			}
			for name, signers := range weak {
				evil++
				id := []byte{0xEE, evil}
				highBefore := string(tree.GetHighQC().In.GetProposalId())
				deliver(L+1, id, qcOn(v, signers, rng.Intn(2) == 0))
				r.Count("proposalpath.weak-certificates", 1)
				r.Case(fmt.Sprintf("proposal-path|n=%d|%s|%s", n, what, name), true)
				stored := tree.DFSQueryNode(id) != nil
				moved := string(tree.GetHighQC().In.GetProposalId()) != highBefore
				if stored || moved {
					r.Violation("qc|proposal-path|insufficient-certificate-accepted|justify-names-"+what+"|"+name,
						fmt.Sprintf("n=%d (quorum %d besides the collector), honest chain of %d proposals (root moved: %v): a proposal whose certificate over proposal %d (%s) carries %s is taken (stored=%v, HighQC moved=%v)",
							n, T, L, rootMoved, v, what, name, stored, moved),
						map[string]interface{}{"n": n, "chain": L, "justify_over_view": v, "justify_names": what, "certificate": name})
					return
				}
			}
		}
	}
}

func negs(k int) []int {
	out := make([]int, k)
	for i := range out {
		out[i] = -1
	}
	return out
}

// outsider picks an identity that is not in the validator set.
func outsider(set []int) int {
	in := map[int]bool{}
	for _, x := range set {
		in[x] = true
	}
	for i := 0; i < sn.NumKeys; i++ {
		if !in[i] {
			return i
		}
	}
	return 0
}
