package main

// Part 3: the collector side. A real Smr (NewSmr, real DefaultSaftyRules / DefaultPaceMaker /
// QCPendingTree) receives a proposal X and then a stream of vote messages; the model says when
// the collector may treat X as certified (HighQC = X): only once DISTINCT members with a valid
// signature over X among everything it was sent number at least the threshold.
// Handlers are run synchronously through the verif-tagged wrappers in export_verif.go.

import (
	"container/list"
	"encoding/json"
	"fmt"
	"math/rand"
	"os"
	"strings"

	bft "github.com/xuperchain/xupercore/kernel/consensus/base/driver/chained-bft"
	cCrypto "github.com/xuperchain/xupercore/kernel/consensus/base/driver/chained-bft/crypto"
	bftpb "github.com/xuperchain/xupercore/kernel/consensus/base/driver/chained-bft/pb"
	"github.com/xuperchain/xupercore/kernel/network/p2p"
	"github.com/xuperchain/xupercore/protos"

	"verif/ev"
	sn "verif/simnode"
)

type selection struct {
	vals   []string
	leader string
}

func (e *selection) GetLeader(round int64) string       { return e.leader }
func (e *selection) GetValidators(round int64) []string { return e.vals }
func (e *selection) GetIntAddress(string) string        { return "" }

// VoteMsgSpec is one vote message: its signature entries (an honest vote has exactly one).
type VoteMsgSpec struct {
	Toks    []Tok
	Fresh   bool // copies of one member inside the message carry different signature bytes
	SigBase int  // which of the member's (all valid) signatures the message starts with
}

// Stream is one collector case.
type Stream struct {
	N         int
	Set       []int
	Collector int    // position in Set of the collecting node
	Category  string // signature class of the one kind of non-honest message the stream contains
	Sub       string // that kind
	Msgs      []VoteMsgSpec
	Seed      int64
}

type streamResult struct {
	CertifiedAfter int // index of the message after which HighQC became X, -1 = never
	Errs           []string
	Built          [][]string
	Cert           []string // addresses in the certificate the collector assembled
	Panic          string
}

const collBc = "xuper"

func runStream(m *Material, st *Stream, rng *rand.Rand) streamResult {
	res := streamResult{CertifiedAfter: -1}
	w := makeWorld(st.Set, idX, idY)
	w.P = idP
	me := m.ids[st.Set[st.Collector]]
	log := sn.NewCapLogger()
	root := &bft.ProposalNode{In: &bft.QuorumCert{VoteInfo: &bft.VoteInfo{ProposalId: idR, ProposalView: 0}, LedgerCommitInfo: &bft.LedgerCommitInfo{CommitStateId: idR}}}
	tree := &bft.QCPendingTree{Genesis: root, Root: root, HighQC: root, CommitQC: root, Log: log, OrphanList: list.New(), OrphanMap: map[string]bool{}}
	cc := cCrypto.NewCBFTCrypto(m.AddressOf(me), sn.Crypto())
	rules := &bft.DefaultSaftyRules{Crypto: cc, QcTree: tree, Log: log}
	el := &selection{vals: w.Addrs(m), leader: me.Address}
	smr := bft.NewSmr(collBc, me.Address, log, &snet{account: me.Address}, cc, &bft.DefaultPaceMaker{CurrentView: 0}, rules, el, tree)
	defer func() {
		if p := recover(); p != nil {
			res.Panic = fmt.Sprint(p)
		}
	}()
	// the proposal X (view 1) on top of the genesis R, proposed by another member (or by the only one)
	proposer := st.Set[(st.Collector+1)%len(st.Set)]
	jq, _ := json.Marshal(&bft.QuorumCert{VoteInfo: &bft.VoteInfo{ProposalId: idR, ProposalView: 0}})
	pm := &bftpb.ProposalMsg{ProposalView: 1, ProposalId: idX, Timestamp: 1, JustifyQC: jq}
	pcc := cCrypto.NewCBFTCrypto(m.AddressOf(m.ids[proposer]), sn.Crypto())
	if _, err := pcc.SignProposalMsg(pm); err != nil {
		panic(err)
	}
	smr.VerifHandleProposal(p2p.NewMessage(protos.XuperMessage_CHAINED_BFT_NEW_PROPOSAL_MSG, pm, p2p.WithBCName(collBc)))
	if string(smr.GetHighQC().GetProposalId()) == string(idX) {
		res.CertifiedAfter = -2 // certified before any vote
		return res
	}
	vi, _ := json.Marshal(&bft.VoteInfo{ProposalId: idX, ProposalView: 1, ParentId: idR, ParentView: 0})
	li, _ := json.Marshal(&bft.LedgerCommitInfo{VoteInfoHash: idX})
	for i, ms := range st.Msgs {
		w.SigBase = ms.SigBase
		signs, desc := m.Build(w, ms.Toks, ms.Fresh, rng)
		res.Built = append(res.Built, desc)
		vm := &bftpb.VoteMsg{VoteInfo: vi, LedgerCommitInfo: li, Signature: signs}
		err := smr.VerifHandleVote(p2p.NewMessage(protos.XuperMessage_CHAINED_BFT_VOTE_MSG, vm, p2p.WithBCName(collBc)))
		if err != nil {
			res.Errs = append(res.Errs, err.Error())
		} else {
			res.Errs = append(res.Errs, "")
		}
		if res.CertifiedAfter == -1 && string(smr.GetHighQC().GetProposalId()) == string(idX) {
			res.CertifiedAfter = i
			for _, s := range smr.GetCompleteHighQC().GetSignsInfo() {
				res.Cert = append(res.Cert, s.GetAddress())
			}
			break
		}
	}
	return res
}

func judgeStream(r *ev.Run, m *Material, st *Stream, res streamResult) {
	T := Threshold(st.N)
	wit := map[string]interface{}{"stream": st, "validators": addrsOf(m, st.Set), "collector": m.ids[st.Set[st.Collector]].Address, "messages": res.Built,
		"handler_errors": res.Errs, "threshold": T, "certified_after_message": res.CertifiedAfter, "assembled_certificate_addresses": res.Cert}
	if res.Panic != "" {
		r.Violation("qc|collector|panic", "smr vote collection panicked: "+res.Panic, wit)
		return
	}
	// model: running set of distinct members with a valid signature over X
	valid := map[int]bool{}
	firstEnough, firstEnoughExcl := -1, -1
	honestOnly := true
	dAt := make([]int, len(st.Msgs))
	for i, ms := range st.Msgs {
		if len(ms.Toks) != 1 || ms.Toks[0].K != KValid {
			honestOnly = false
		}
		for _, t := range ms.Toks {
			if t.K == KValid {
				valid[t.I] = true
			}
		}
		d, dx := len(valid), len(valid)
		if valid[st.Collector] {
			dx--
		}
		dAt[i] = d
		if d >= T && firstEnough < 0 {
			firstEnough = i
		}
		if dx >= T && firstEnoughExcl < 0 {
			firstEnoughExcl = i
		}
	}
	shape := []string{}
	for _, ms := range st.Msgs {
		shape = append(shape, "["+shapeOf(ms.Toks)+"]")
	}
	r.Case(fmt.Sprintf("collector|n=%d|%s|%s", st.N, st.Sub, strings.Join(shape, "")), len(st.Msgs) > 0)
	r.Count("collector.streams", 1)
	r.Count("collector.messages", len(res.Built))
	r.Count("collector.kind."+st.Sub, 1)
	if res.CertifiedAfter >= 0 {
		r.Count("collector.certified", 1)
	} else {
		r.Count("collector.not-certified", 1)
	}
	if T == 0 {
		// n = 1: nothing to collect; no obligation
		return
	}
	if res.CertifiedAfter == -2 {
		r.Violation("qc|collector|certified-without-votes", fmt.Sprintf("n=%d threshold %d: the proposal was treated as certified before any vote arrived", st.N, T), wit)
		return
	}
	if res.CertifiedAfter >= 0 && (firstEnough < 0 || res.CertifiedAfter < firstEnough) {
		r.Count("collector.premature", 1)
		r.Violation("qc|collector|"+st.Category, fmt.Sprintf("n=%d threshold %d: the collector treated the proposal as certified after message %d, when only %d distinct member(s) had sent a valid signature; messages %v; assembled certificate %v",
			st.N, T, res.CertifiedAfter, dAt[res.CertifiedAfter], res.Built, res.Cert), wit)
		return
	}
	if honestOnly && firstEnoughExcl >= 0 && res.CertifiedAfter < 0 {
		r.Violation("qc|collector|quorum-of-honest-votes-not-recognised", fmt.Sprintf("n=%d threshold %d: %d honest votes of distinct members (besides the collector) were delivered, the proposal never became certified; errors %v",
			st.N, T, T, res.Errs), wit)
	}
	if st.Sub == "duplicate" && st.N >= 4 && res.CertifiedAfter >= 0 && r.Counter("sampled.collector."+st.Sub) == 0 {
		r.Count("sampled.collector."+st.Sub, 1)
		r.Sample(map[string]interface{}{"via": "Smr vote collection", "n": st.N, "threshold": T, "kind": st.Sub, "messages": res.Built,
			"certified_after_message": res.CertifiedAfter, "handler_errors": res.Errs})
	}
}

// collectorPart generates the streams: D honest voters plus k messages of exactly one
// non-honest category, in seeded random order (the premature-quorum check is per prefix).
func collectorPart(r *ev.Run, m *Material) {
	// sub-kind of non-honest message -> signature class (one class per root cause)
	cats := []string{"honest", "duplicate", "non-member", "wrong-id", "damaged", "mismatch", "repeat-inside-message", "extras-inside-message"}
	class := map[string]string{"honest": "quorum-declared-too-early", "duplicate": "duplicate-vote-counted", "non-member": "non-member-vote-counted",
		"wrong-id": "vote-whose-signature-does-not-verify-counted", "damaged": "vote-whose-signature-does-not-verify-counted", "mismatch": "vote-whose-signature-does-not-verify-counted",
		"repeat-inside-message": "extra-signatures-inside-one-vote-message-counted", "extras-inside-message": "extra-signatures-inside-one-vote-message-counted"}
	idx := 0
	reps := r.N(3, 40)
	for n := 1; n <= 10; n++ {
		T := Threshold(n)
		for _, cat := range cats {
			for D := 0; D <= T && D <= n-1; D++ {
				if D < T-2 && D != 0 {
					continue
				}
				for rep := 0; rep < reps; rep++ {
					rng := rand.New(rand.NewSource(caseSeed(r.Seed, 9000, idx)))
					set := rng.Perm(sn.NumKeys)[:n]
					col := rng.Intn(n)
					var others []int
					for _, x := range rng.Perm(n) {
						if x != col {
							others = append(others, x)
						}
					}
					honest := others[:D]
					if rep%4 == 3 && D > 0 {
						honest = append([]int{col}, honest[:D-1]...) // the collector's own vote among them
					}
					st := &Stream{N: n, Set: set, Collector: col, Category: class[cat], Sub: cat, Seed: caseSeed(r.Seed, 9100, idx)}
					idx++
					for _, x := range honest {
						st.Msgs = append(st.Msgs, VoteMsgSpec{Toks: []Tok{{KValid, x}}})
					}
					k := 1 + rng.Intn(n+1)
					anyMember := func() int { return rng.Intn(n) }
					for j := 0; j < k; j++ {
						switch cat {
						case "honest":
						case "duplicate":
							if D > 0 {
								st.Msgs = append(st.Msgs, VoteMsgSpec{Toks: []Tok{{KValid, honest[rng.Intn(D)]}}, SigBase: rng.Intn(3)})
							}
						case "non-member":
							st.Msgs = append(st.Msgs, VoteMsgSpec{Toks: []Tok{{KNonMem, rng.Intn(5)}}})
						case "wrong-id":
							st.Msgs = append(st.Msgs, VoteMsgSpec{Toks: []Tok{{KWrongID, anyMember()}}})
						case "damaged":
							st.Msgs = append(st.Msgs, VoteMsgSpec{Toks: []Tok{{KCorrupt, anyMember()}}})
						case "mismatch":
							st.Msgs = append(st.Msgs, VoteMsgSpec{Toks: []Tok{{KMismatch, anyMember()}}})
						case "repeat-inside-message":
							if D > 0 {
								x := honest[rng.Intn(D)]
								st.Msgs = append(st.Msgs, VoteMsgSpec{Toks: []Tok{{KValid, x}, {KValid, x}, {KValid, x}}, Fresh: rng.Intn(2) == 0})
							}
						case "extras-inside-message":
							if D > 0 {
								x := honest[rng.Intn(D)]
								st.Msgs = append(st.Msgs, VoteMsgSpec{Toks: []Tok{{KValid, x}, {KNonMem, rng.Intn(5)}, {KCorrupt, anyMember()}, {KWrongID, anyMember()}}})
							}
						}
					}
					rng.Shuffle(len(st.Msgs), func(a, b int) { st.Msgs[a], st.Msgs[b] = st.Msgs[b], st.Msgs[a] })
					res := runStream(m, st, rand.New(rand.NewSource(st.Seed)))
					judgeStream(r, m, st, res)
				}
			}
		}
	}
	fmt.Fprintf(os.Stderr, "c14: collector %d streams\n", idx)
}

func collectorFloors(r *ev.Run) {
	r.Floor("collector.streams", 500)
	r.Floor("collector.certified", 30)
	r.Floor("collector.not-certified", 100)
	for _, k := range []string{"honest", "duplicate", "non-member", "wrong-id", "damaged", "mismatch", "repeat-inside-message", "extras-inside-message"} {
		r.Floor("collector.kind."+k, 30)
	}
}
