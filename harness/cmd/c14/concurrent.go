package main

// Collector under concurrency: the smr starts one goroutine per received vote message, so copies
// of ONE member's vote can be handled at the same moment. However they interleave, a member's
// signature counts once: T-2 honest votes delivered one after the other plus eight simultaneous
// copies of one further member's vote are T-1 distinct voters and must never certify the
// proposal. The handlers are the real ones, called through the synchronous shims from eight
// goroutines.

import (
	"container/list"
	"encoding/json"
	"fmt"
	"math/rand"
	"sync"

	bft "github.com/xuperchain/xupercore/kernel/consensus/base/driver/chained-bft"
	cCrypto "github.com/xuperchain/xupercore/kernel/consensus/base/driver/chained-bft/crypto"
	bftpb "github.com/xuperchain/xupercore/kernel/consensus/base/driver/chained-bft/pb"
	"github.com/xuperchain/xupercore/kernel/network/p2p"
	"github.com/xuperchain/xupercore/protos"

	"verif/ev"
	sn "verif/simnode"
)

func concurrentDupPart(r *ev.Run, m *Material) {
	trials := r.N(800, 8000)
	certified := 0
	var first map[string]interface{}
	for t := 0; t < trials; t++ {
		rng := rand.New(rand.NewSource(caseSeed(r.Seed, 9700, t)))
		n := 5 + rng.Intn(4)
		T := Threshold(n)
		if T < 2 {
			continue
		}
		set := rng.Perm(sn.NumKeys)[:n]
		col := rng.Intn(n)
		var others []int
		for _, x := range rng.Perm(n) {
			if x != col {
				others = append(others, x)
			}
		}
		honest, dupOf := others[:T-2], others[T-2]
		w := makeWorld(set, idX, idY)
		w.P = idP
		me := m.ids[set[col]]
		log := sn.NewCapLogger()
		root := &bft.ProposalNode{In: &bft.QuorumCert{VoteInfo: &bft.VoteInfo{ProposalId: idR, ProposalView: 0}, LedgerCommitInfo: &bft.LedgerCommitInfo{CommitStateId: idR}}}
		tree := &bft.QCPendingTree{Genesis: root, Root: root, HighQC: root, CommitQC: root, Log: log, OrphanList: list.New(), OrphanMap: map[string]bool{}}
		cc := cCrypto.NewCBFTCrypto(m.AddressOf(me), sn.Crypto())
		rules := &bft.DefaultSaftyRules{Crypto: cc, QcTree: tree, Log: log}
		el := &selection{vals: w.Addrs(m), leader: me.Address}
		smr := bft.NewSmr(collBc, me.Address, log, &snet{account: me.Address}, cc, &bft.DefaultPaceMaker{CurrentView: 0}, rules, el, tree)
		proposer := set[(col+1)%len(set)]
		jq, _ := json.Marshal(&bft.QuorumCert{VoteInfo: &bft.VoteInfo{ProposalId: idR, ProposalView: 0}})
		pm := &bftpb.ProposalMsg{ProposalView: 1, ProposalId: idX, Timestamp: 1, JustifyQC: jq}
		pcc := cCrypto.NewCBFTCrypto(m.AddressOf(m.ids[proposer]), sn.Crypto())
		if _, err := pcc.SignProposalMsg(pm); err != nil {
			continue
		}
		smr.VerifHandleProposal(p2p.NewMessage(protos.XuperMessage_CHAINED_BFT_NEW_PROPOSAL_MSG, pm, p2p.WithBCName(collBc)))
		vi, _ := json.Marshal(&bft.VoteInfo{ProposalId: idX, ProposalView: 1, ParentId: idR, ParentView: 0})
		li, _ := json.Marshal(&bft.LedgerCommitInfo{VoteInfoHash: idX})
		vote := func(member int, sigBase int) *protos.XuperMessage {
			w.SigBase = sigBase
			signs, _ := m.Build(w, []Tok{{KValid, member}}, false, rng)
			return p2p.NewMessage(protos.XuperMessage_CHAINED_BFT_VOTE_MSG, &bftpb.VoteMsg{VoteInfo: vi, LedgerCommitInfo: li, Signature: signs}, p2p.WithBCName(collBc))
		}
		for _, x := range honest {
			smr.VerifHandleVote(vote(x, 0))
		}
		var msgs []*protos.XuperMessage
		for c := 0; c < 8; c++ {
			msgs = append(msgs, vote(dupOf, c%3))
		}
		var wg sync.WaitGroup
		start := make(chan struct{})
		for _, msg := range msgs {
			wg.Add(1)
			go func(msg *protos.XuperMessage) {
				defer wg.Done()
				defer func() { recover() }()
				<-start
				smr.VerifHandleVote(msg)
			}(msg)
		}
		close(start)
		wg.Wait()
		r.Count("collector.concurrent.trials", 1)
		r.Case(fmt.Sprintf("collector|concurrent-copies|n=%d|T=%d", n, T), true)
		if string(smr.GetHighQC().GetProposalId()) == string(idX) {
			certified++
			if first == nil {
				var cert []string
				for _, s := range smr.GetCompleteHighQC().GetSignsInfo() {
					cert = append(cert, s.GetAddress())
				}
				first = map[string]interface{}{"n": n, "needed_besides_collector": T, "distinct_voters": T - 1, "certificate": cert, "trial": t}
			}
		}
	}
	if certified > 0 {
		r.Violation("qc|collector|repeated-member-vote-counted-under-concurrency",
			fmt.Sprintf("in %d of %d trials the collector certified a proposal with one voter less than the threshold after eight simultaneous copies of one member's vote; first: %v", certified, trials, first), first)
	}
}
