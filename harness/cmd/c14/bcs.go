package main

// Part 2: the same certificates through the public CheckMinerMatch of real tdpos (xpos) and
// xpoa instances built with their exported constructors over a stub ledger.
//
// Chain of the stub ledger: heights 0..12, the block under test has height 13 and carries the
// certificate for block 12. Validator-set contract state as seen by snapshots:
//
//	snapshot below height H : set Z   (an older set)
//	snapshot at height H    : set A   -> in force for block 12 (the certified proposal)
//	snapshot above height H : set B   -> in force for block 13 (decides its proposer)
//
// tdpos (H = 6): terms of 4 blocks (1..4 init set, 5..8 elected from snapshot@2 = Z, 9..12 elected
// from snapshot@6 = A, block 13 opens a new term elected from snapshot@9 = B).
// xpoa (H = 8): the set for height h is read from snapshot@(h-4): block 12 -> @8 = A, block 13 -> @9 = B.
// So a certificate for block 12 has to be signed by a quorum of A; B or Z must not do.

import (
	"encoding/hex"
	"encoding/json"
	"fmt"
	"math/rand"
	"os"
	"time"

	"github.com/xuperchain/xupercore/bcs/consensus/tdpos"
	"github.com/xuperchain/xupercore/bcs/consensus/xpoa"
	xctx "github.com/xuperchain/xupercore/kernel/common/xcontext"
	"github.com/xuperchain/xupercore/kernel/consensus/base"
	common "github.com/xuperchain/xupercore/kernel/consensus/base/common"
	bft "github.com/xuperchain/xupercore/kernel/consensus/base/driver/chained-bft"
	cctx "github.com/xuperchain/xupercore/kernel/consensus/context"
	"github.com/xuperchain/xupercore/kernel/consensus/def"
	"github.com/xuperchain/xupercore/kernel/contract"
	"github.com/xuperchain/xupercore/kernel/ledger"
	nctx "github.com/xuperchain/xupercore/kernel/network/context"
	"github.com/xuperchain/xupercore/kernel/network/p2p"
	"github.com/xuperchain/xupercore/protos"

	"verif/ev"
	sn "verif/simnode"
)

const (
	tipHeight  = 12
	msPerSlot  = 1000
	tdposBlkN  = 4 // blocks per proposer per term
	xpoaBlkN   = 2
	xpoaPeriod = 3000
	initTimeMs = 1600000000000
)

// ---- stub block / ledger / network / contract manager ---------------------------------------

type sblock struct {
	proposer string
	height   int64
	id, pre  []byte
	storage  []byte
	ts       int64
}

func (b *sblock) GetProposer() []byte                          { return []byte(b.proposer) }
func (b *sblock) GetHeight() int64                             { return b.height }
func (b *sblock) GetBlockid() []byte                           { return b.id }
func (b *sblock) GetConsensusStorage() ([]byte, error)         { return b.storage, nil }
func (b *sblock) GetTimestamp() int64                          { return b.ts }
func (b *sblock) SetItem(item string, value interface{}) error { return fmt.Errorf("unsupported") }
func (b *sblock) MakeBlockId() ([]byte, error)                 { return b.id, nil }
func (b *sblock) GetPreHash() []byte                           { return b.pre }
func (b *sblock) GetNextHash() []byte                          { return nil }
func (b *sblock) GetPublicKey() string                         { return "" }
func (b *sblock) GetSign() []byte                              { return nil }
func (b *sblock) GetTxIDs() []string                           { return nil }
func (b *sblock) GetInTrunk() bool                             { return true }

type sledger struct {
	blocks []*sblock
	byID   map[string]*sblock
	snap   func(height int64) map[string][]byte // bucket/key -> value

	// read-fault injection (readfault.go). While armed every read that can fail in a real ledger
	// (block look-ups, snapshot creation, snapshot reads) is counted; read number failAt - and,
	// when sticky, every later one - returns errReadFault instead of its answer.
	armed  bool
	reads  int
	failAt int
	sticky bool
	faults int
	trace  []string // kinds of the reads seen while armed
	failed []string // kinds of the reads that were failed
}

var errNoBlock = fmt.Errorf("block not found")
var errReadFault = fmt.Errorf("leveldb: read fault (injected by verif)")

func (l *sledger) arm(failAt int, sticky bool) {
	l.armed, l.reads, l.failAt, l.sticky, l.faults, l.trace, l.failed = true, 0, failAt, sticky, 0, nil, nil
}
func (l *sledger) disarm() { l.armed = false }

// fault counts one read and says whether it has to fail.
func (l *sledger) fault(kind string) bool {
	if !l.armed {
		return false
	}
	l.reads++
	l.trace = append(l.trace, kind)
	if l.failAt > 0 && (l.reads == l.failAt || l.sticky && l.reads > l.failAt) {
		l.faults++
		l.failed = append(l.failed, kind)
		return true
	}
	return false
}

func (l *sledger) GetConsensusConf() ([]byte, error) { return []byte("{}"), nil }
func (l *sledger) QueryBlock(id []byte) (ledger.BlockHandle, error) {
	if l.fault("QueryBlock") {
		return nil, errReadFault
	}
	if b, ok := l.byID[hex.EncodeToString(id)]; ok {
		return b, nil
	}
	return nil, errNoBlock
}
func (l *sledger) QueryBlockByHeight(h int64) (ledger.BlockHandle, error) {
	if l.fault("QueryBlockByHeight") {
		return nil, errReadFault
	}
	if h < 0 || int(h) >= len(l.blocks) {
		return nil, errNoBlock
	}
	return l.blocks[h], nil
}
func (l *sledger) GetTipBlock() ledger.BlockHandle { return l.blocks[len(l.blocks)-1] }
func (l *sledger) GetTipXMSnapshotReader() (ledger.XMSnapshotReader, error) {
	if l.fault("GetTipXMSnapshotReader") {
		return nil, errReadFault
	}
	return &sreader{data: l.snap(int64(len(l.blocks) - 1)), l: l}, nil
}

type sreader struct {
	data map[string][]byte
	l    *sledger
}

func (r *sreader) Get(bucket string, key []byte) ([]byte, error) { // XMSnapshotReader
	if r.l != nil && r.l.fault("XMSnapshotReader.Get") {
		return nil, errReadFault
	}
	return r.data[bucket+"/"+string(key)], nil
}

// sxm adapts sreader to ledger.XMReader (different Get signature).
type sxm struct{ r *sreader }

func (l *sledger) xm(h int64) ledger.XMReader { return &sxm{&sreader{data: l.snap(h), l: l}} }
func (x *sxm) Get(bucket string, key []byte) (*ledger.VersionedData, error) {
	if x.r.l != nil && x.r.l.fault("XMReader.Get") {
		return nil, errReadFault
	}
	v, ok := x.r.data[bucket+"/"+string(key)]
	if !ok {
		return nil, nil
	}
	return &ledger.VersionedData{PureData: &ledger.PureData{Bucket: bucket, Key: key, Value: v}}, nil
}
func (x *sxm) Select(bucket string, startKey []byte, endKey []byte) (ledger.XMIterator, error) {
	return nil, fmt.Errorf("unsupported")
}

type snet struct{ account string }

func (n *snet) Start() {}
func (n *snet) Stop()  {}
func (n *snet) SendMessage(xctx.XContext, *protos.XuperMessage, ...p2p.OptionFunc) error {
	return nil
}
func (n *snet) SendMessageWithResponse(xctx.XContext, *protos.XuperMessage, ...p2p.OptionFunc) ([]*protos.XuperMessage, error) {
	return nil, nil
}
func (n *snet) NewSubscriber(protos.XuperMessage_MessageType, interface{}, ...p2p.SubscriberOption) p2p.Subscriber {
	return nil
}
func (n *snet) Register(p2p.Subscriber) error   { return nil }
func (n *snet) UnRegister(p2p.Subscriber) error { return nil }
func (n *snet) Context() *nctx.NetCtx           { return nil }
func (n *snet) PeerInfo() protos.PeerInfo       { return protos.PeerInfo{Account: n.account} }

type smanager struct {
	m map[string]contract.KernMethod
}

func (s *smanager) NewContext(cfg *contract.ContextConfig) (contract.Context, error) {
	return nil, fmt.Errorf("unsupported")
}
func (s *smanager) NewStateSandbox(cfg *contract.SandboxConfig) (contract.StateSandbox, error) {
	return nil, fmt.Errorf("unsupported")
}
func (s *smanager) GetKernRegistry() contract.KernRegistry { return s }
func (s *smanager) RegisterKernMethod(c, method string, h contract.KernMethod) {
	s.m[c+"."+method] = h
}
func (s *smanager) RegisterShortcut(oldmethod, contract, method string) {}
func (s *smanager) GetKernMethod(c, method string) (contract.KernMethod, error) {
	if h, ok := s.m[c+"."+method]; ok {
		return h, nil
	}
	return nil, fmt.Errorf("not found")
}

// ---- scenario ---------------------------------------------------------------------------------

type scenario struct {
	signers []int  // when set, certificates are signed by this set instead of A (reorg differential)
	fork    int    // 0 = the original chain; f > 0: another branch leaving it after block 2 (other block ids)
	Cons    string // "tdpos" | "xpoa"
	A, B, Z []int  // universe indices
	m       *Material
	led     *sledger
	inst    base.ConsensusImplInterface
	log     *sn.CapLogger

	faultAt     int  // read-fault injection for the next run(): number of the read to fail (0 = none)
	faultSticky bool // ... and every later read too
}

func blockID(h int64) []byte {
	return []byte(fmt.Sprintf("verif-c14-block-%02d-id-0123456789abcdef", h))
}

// bid: id of the block at height h on the scenario's current branch.
func (s *scenario) bid(h int64) []byte {
	if s.fork == 0 || h <= 2 {
		return blockID(h)
	}
	return []byte(fmt.Sprintf("verif-c14-fork%d-blk-%02d-id-0123456789abcdef", s.fork, h))
}

func (s *scenario) addrs(set []int) []string { return addrsOf(s.m, set) }

// setAt: the validator set the contracts prescribe in the state after block h. A holds at exactly
// ONE height - the one the consensus has to read for block 12 - so that reading one block too
// early or too late picks another set.
func (s *scenario) setAt(h int64) []int {
	at := int64(8) // xpoa: set of block 12 = snapshot@(12-1-3)
	if s.Cons == "tdpos" {
		at = 6 // tdpos: block 12 lies in the term opened by block 9, elected from snapshot@(9-3)
	}
	switch {
	case h < at:
		return s.Z
	case h == at:
		return s.A
	}
	return s.B
}

// snapshot content: what the validator-set contracts would have written.
func (s *scenario) snap(h int64) map[string][]byte {
	set := s.addrs(s.setAt(h))
	d := map[string][]byte{}
	if s.Cons == "xpoa" {
		v, _ := json.Marshal(map[string][]string{"address": set})
		d["$xpoa/0_validates"] = v
		return d
	}
	nom := map[string]map[string]int64{}
	for i, a := range set {
		nom[a] = map[string]int64{"verif": 1}
		v, _ := json.Marshal(map[string]int64{"voter": int64(1000 - i)})
		d["$xpos/xpos_0_vote_"+a] = v
	}
	v, _ := json.Marshal(nom)
	d["$xpos/xpos_0_nominate"] = v
	return d
}

// tdpos time of slot k (0-based) of term t (1-based), in ns.
func tdposSlotTime(n int, term int64, slot int64) int64 {
	termTime := int64(4*n) * msPerSlot
	return (initTimeMs + (term-1)*termTime + slot*msPerSlot + msPerSlot/2) * int64(time.Millisecond)
}

// xpoa time at which position pos of a set of size n is the leader, in ns.
func xpoaPosTime(n int, pos int) int64 {
	posTime := int64(xpoaPeriod * xpoaBlkN)
	termTime := posTime * int64(n)
	return (int64(initTimeMs/termTime+5)*termTime + int64(pos)*posTime + xpoaPeriod/2) * int64(time.Millisecond)
}

func newScenario(m *Material, cons string, A, B, Z []int) (*scenario, error) {
	s := &scenario{Cons: cons, A: A, B: B, Z: Z, m: m, log: sn.NewCapLogger()}
	led := &sledger{byID: map[string]*sblock{}}
	led.snap = s.snap
	s.led = led
	s.buildChain()
	n := len(A)
	me := m.ids[A[0]]
	cc := cctx.ConsensusCtx{BaseCtx: xctx.BaseCtx{XLog: s.log}, BcName: "xuper", Address: m.AddressOf(me), Crypto: sn.Crypto(),
		Contract: &smanager{m: map[string]contract.KernMethod{}}, Ledger: &ledgerAdapter{led}, Network: &snet{account: me.Address}}
	var cfg string
	if cons == "tdpos" {
		c := map[string]interface{}{"timestamp": fmt.Sprint(int64(initTimeMs) * int64(time.Millisecond)), "proposer_num": fmt.Sprint(n), "period": fmt.Sprint(msPerSlot),
			"alternate_interval": fmt.Sprint(msPerSlot), "term_interval": fmt.Sprint(msPerSlot), "block_num": fmt.Sprint(tdposBlkN), "vote_unit_price": "1",
			"init_proposer": map[string][]string{"1": s.addrs(Z)}, "bft_config": map[string]bool{}}
		b, _ := json.Marshal(c)
		cfg = string(b)
		s.inst = tdpos.NewTdposConsensus(cc, def.ConsensusConfig{ConsensusName: "tdpos", Config: cfg, StartHeight: 1, Index: 0})
	} else {
		c := map[string]interface{}{"period": xpoaPeriod, "block_num": xpoaBlkN, "init_proposer": map[string][]string{"address": s.addrs(Z)}, "bft_config": map[string]bool{}}
		b, _ := json.Marshal(c)
		cfg = string(b)
		s.inst = xpoa.NewXpoaConsensus(cc, def.ConsensusConfig{ConsensusName: "xpoa", Config: cfg, StartHeight: 1, Index: 0})
	}
	if s.inst == nil {
		return nil, fmt.Errorf("%s constructor returned nil: %v", cons, s.log.Tail(5))
	}
	return s, nil
}

// buildChain (re)builds the stub ledger's main chain for the scenario's current branch.
func (s *scenario) buildChain() {
	led := s.led
	led.blocks = nil
	led.byID = map[string]*sblock{}
	cons, A := s.Cons, s.A
	n := len(A)
	for h := int64(0); h <= tipHeight; h++ {
		b := &sblock{height: h, id: s.bid(h), proposer: s.m.ids[A[0]].Address}
		if h > 0 {
			b.pre = s.bid(h - 1)
		}
		st := common.ConsensusStorage{}
		if cons == "tdpos" {
			term := (h-1)/4 + 1
			slot := (h - 1) % 4
			if h == 0 {
				term, slot = 1, 0
				b.ts = (initTimeMs - 1000) * int64(time.Millisecond)
			} else {
				b.ts = tdposSlotTime(n, term, slot)
			}
			st.CurTerm = term
			st.CurBlockNum = slot
		} else {
			b.ts = (initTimeMs + h*xpoaPeriod) * int64(time.Millisecond)
		}
		if h > 1 {
			// honest blocks carry a justify for their parent (content irrelevant here)
			q, _ := common.NewToOldQC(&bft.QuorumCert{VoteInfo: &bft.VoteInfo{ProposalId: s.bid(h - 1), ProposalView: h - 1, ParentId: s.bid(h - 2), ParentView: h - 2}})
			st.Justify = q
		}
		b.storage, _ = json.Marshal(st)
		led.blocks = append(led.blocks, b)
		led.byID[hex.EncodeToString(b.id)] = b
	}
}

// reorganise switches the stub ledger to another branch (other block ids from height 3 on) on which
// the validator set in force for view 12 is A2; the consensus instance stays the same.
func (s *scenario) reorganise(fork int, A2 []int) {
	s.fork = fork
	s.A = A2
	s.buildChain()
}

// ledgerAdapter gives CreateSnapshot / GetTipSnapshot the XMReader flavour.
type ledgerAdapter struct{ *sledger }

func (l *ledgerAdapter) CreateSnapshot(id []byte) (ledger.XMReader, error) {
	if l.fault("CreateSnapshot") {
		return nil, errReadFault
	}
	b, ok := l.byID[hex.EncodeToString(id)]
	if !ok {
		return nil, errNoBlock
	}
	return l.xm(b.height), nil
}
func (l *ledgerAdapter) GetTipSnapshot() (ledger.XMReader, error) {
	if l.fault("GetTipSnapshot") {
		return nil, errReadFault
	}
	return l.xm(int64(len(l.blocks) - 1)), nil
}

func (s *scenario) stop() {
	defer func() { recover() }()
	s.inst.Stop()
}

// BcsCase is one block of height 13 given to CheckMinerMatch.
type BcsCase struct {
	Cons        string
	Tag         string // what the certificate is made of
	A, B, Z     []int
	ProposerPos int   // position in B of the block's proposer (the collector)
	Toks        []Tok // entries relative to A (non-members index the outsiders of A)
	Fresh       bool
	ClaimedView int64 // view number written into the certificate (12 when honest)
	Seed        int64
}

func (s *scenario) run(c *BcsCase, rng *rand.Rand) caseResult {
	blk, desc := s.makeBlock(c, rng, s.bid(tipHeight+1))
	res := s.check(blk)
	res.Built = desc
	return res
}

// makeBlock builds the block of height 13 (id `id`) that carries the certificate of the case.
func (s *scenario) makeBlock(c *BcsCase, rng *rand.Rand, id []byte) (*sblock, []string) {
	m := s.m
	signSet := s.A
	if s.signers != nil {
		signSet = s.signers
	}
	w := makeWorld(signSet, s.bid(tipHeight), s.bid(tipHeight-1))
	w.P = id
	signs, desc := m.Build(w, c.Toks, c.Fresh, rng)
	justify := &bft.QuorumCert{VoteInfo: &bft.VoteInfo{ProposalId: s.bid(tipHeight), ProposalView: c.ClaimedView, ParentId: s.bid(tipHeight - 1), ParentView: tipHeight - 1},
		SignInfos: signs}
	old, err := common.NewToOldQC(justify)
	if err != nil {
		panic(err)
	}
	st := common.ConsensusStorage{Justify: old}
	blk := &sblock{height: tipHeight + 1, id: id, pre: s.bid(tipHeight), proposer: m.ids[s.B[c.ProposerPos]].Address}
	if s.Cons == "tdpos" {
		st.CurTerm = 4
		slot := int64(c.ProposerPos*tdposBlkN) + int64(rng.Intn(tdposBlkN))
		st.CurBlockNum = slot % tdposBlkN
		blk.ts = tdposSlotTime(len(s.A), 4, slot)
	} else {
		blk.ts = xpoaPosTime(len(s.B), c.ProposerPos)
	}
	blk.storage, _ = json.Marshal(st)
	return blk, desc
}

// check gives a block to the instance's CheckMinerMatch (with the scenario's read fault armed).
func (s *scenario) check(blk *sblock) caseResult {
	res := caseResult{}
	s.led.arm(s.faultAt, s.faultSticky)
	defer s.led.disarm()
	func() {
		defer func() {
			if p := recover(); p != nil {
				res.Panic = fmt.Sprint(p)
			}
		}()
		ok, err := s.inst.CheckMinerMatch(&xctx.BaseCtx{XLog: s.log}, blk)
		res.Accepted = ok && err == nil
		if err != nil {
			res.Err = err.Error()
		} else if !ok {
			res.Err = "false, nil"
		}
	}()
	return res
}

// confirm tells the instance that the block was confirmed by the ledger (ProcessConfirmBlock: the
// block's justify signatures are merged into the instance's vote store).
func (s *scenario) confirm(blk *sblock) (pan string) {
	defer func() {
		if p := recover(); p != nil {
			pan = fmt.Sprint(p)
		}
	}()
	s.inst.ProcessConfirmBlock(blk)
	return ""
}

func posIn(set []int, u int) int {
	for i, x := range set {
		if x == u {
			return i
		}
	}
	return -1
}

// toksSignedBy: every member of signer set S signs the certified id; relative to A these are
// valid-member entries (for the overlap) or non-member entries.
func toksSignedBy(w *World, A, S []int) []Tok {
	var t []Tok
	for _, u := range S {
		if p := posIn(A, u); p >= 0 {
			t = append(t, Tok{KValid, p})
		} else {
			t = append(t, Tok{KNonMem, posIn(w.Outsiders, u)})
		}
	}
	return t
}

func judgeBcs(r *ev.Run, s *scenario, c *BcsCase, res caseResult) {
	via := s.Cons + ".CheckMinerMatch"
	n := len(s.A)
	col := posIn(s.A, s.B[c.ProposerPos])
	v := Judge(n, c.Toks, col)
	wit := map[string]interface{}{"via": via, "case": c, "entries": res.Built, "set_in_force_for_certified_block(A)": s.addrs(s.A),
		"set_of_current_block(B)": s.addrs(s.B), "older_set(Z)": s.addrs(s.Z), "proposer": s.m.ids[s.B[c.ProposerPos]].Address,
		"threshold": v.T, "distinct_valid_members_of_A": v.DIncl, "without_collector": v.DExcl, "accepted": res.Accepted, "error": res.Err, "log": s.log.Tail(3)}
	if res.Panic != "" {
		r.Violation("qc|"+via+"|panic", via+" panicked: "+res.Panic, wit)
		return
	}
	overlapAB, overlapAZ := 0, 0
	for _, u := range s.B {
		if posIn(s.A, u) >= 0 {
			overlapAB++
		}
	}
	for _, u := range s.Z {
		if posIn(s.A, u) >= 0 {
			overlapAZ++
		}
	}
	nontrivial := len(c.Toks) > 0 && (v.Invalid+v.Repeats+v.NonMembers > 0 || v.DIncl-v.T >= -1 && v.DIncl-v.T <= 1)
	r.Case(fmt.Sprintf("%s|n=%d|nB=%d|ovAB=%d|%s|view=%d|colInA=%v|%s", via, n, len(s.B), overlapAB, c.Tag, c.ClaimedView, col >= 0, shapeOf(c.Toks)), nontrivial)
	r.Count(via+".cases", 1)
	r.Count(via+".tag."+c.Tag, 1)
	if res.Accepted {
		r.Count(via+".accepted", 1)
	} else {
		r.Count(via+".rejected", 1)
	}
	switch {
	case v.MustReject:
		r.Count(via+".oracle.must-reject", 1)
	case v.MustAccept:
		r.Count(via+".oracle.must-accept", 1)
	default:
		r.Count(via+".oracle.either", 1)
	}
	wrongSet := c.Tag == "signed-by-current-set-B" || c.Tag == "signed-by-older-set-Z" || c.Tag == "claimed-old-view-signed-by-Z" || c.Tag == "too-few-of-A-plus-rest-of-B"
	if wrongSet && v.MustReject {
		r.Count(via+".wrong-set-must-fail", 1)
	}
	if v.MustReject && res.Accepted {
		sig := WrongAcceptSignature(v, c.Toks) // same defect as in CheckProposal -> same signature
		switch {
		case c.ClaimedView != tipHeight && v.Repeats < v.T-v.DIncl:
			sig = "qc|" + s.Cons + "|validator-set-selected-by-view-claimed-in-certificate"
		case wrongSet && v.Repeats < v.T-v.DIncl:
			sig = "qc|" + s.Cons + "|certificate-of-validator-set-not-in-force-accepted|" + c.Tag
		}
		r.Violation(sig, fmt.Sprintf("%s accepted block 13 whose certificate for block 12 (claimed view %d) has %d distinct valid signature(s) of the set in force for block 12 (n=%d, threshold %d); tag %s, entries %v",
			via, c.ClaimedView, v.DIncl, n, v.T, c.Tag, res.Built), wit)
	}
	if v.MustAccept && !res.Accepted && c.ClaimedView == tipHeight {
		sig := "qc|" + s.Cons + "|sufficient-certificate-of-set-in-force-refused"
		if v.Padded {
			sig += "-with-neutral-padding"
		}
		r.Violation(sig, fmt.Sprintf("%s refused (%s) block 13 whose certificate for block 12 has %d distinct valid signatures of the set in force besides the proposer (n=%d, threshold %d), no invalid entry; tag %s, entries %v",
			via, res.Err, v.DExcl, n, v.T, c.Tag, res.Built), wit)
	}
	if c.Tag == "signed-by-current-set-B" && n >= 4 && r.Counter("sampled."+s.Cons+c.Tag) == 0 {
		r.Count("sampled."+s.Cons+c.Tag, 1)
		r.Sample(map[string]interface{}{"via": via, "tag": c.Tag, "n": n, "A_in_force_for_block_12": s.addrs(s.A), "B_current": s.addrs(s.B), "entries": res.Built,
			"claimed_view": c.ClaimedView, "threshold": v.T, "distinct_valid_of_A": v.DIncl, "accepted": res.Accepted, "error": res.Err})
	}
}

// pickSets chooses A, B, Z for |A| = n. overlap: how many members B shares with A.
func pickSets(rng *rand.Rand, n, nB, overlap int, universe int) (A, B, Z []int) {
	p := rng.Perm(universe)
	A = append(A, p[:n]...)
	rest := p[n:]
	if overlap > n {
		overlap = n
	}
	if overlap > nB {
		overlap = nB
	}
	if nB-overlap > len(rest) {
		overlap = nB - len(rest)
	}
	sh := rng.Perm(n)
	for i := 0; i < overlap; i++ {
		B = append(B, A[sh[i]])
	}
	B = append(B, rest[:nB-overlap]...)
	rng.Shuffle(len(B), func(i, j int) { B[i], B[j] = B[j], B[i] })
	// Z: same size as A (tdpos needs proposer_num candidates), mostly other identities
	q := rng.Perm(universe)
	Z = append(Z, q[:n]...)
	return
}

func bcsPart(r *ev.Run, m *Material) {
	universe := len(m.ids)
	scen := 0
	for _, cons := range []string{"tdpos", "xpoa"} {
		for n := 1; n <= 10; n++ {
			T := Threshold(n)
			reps := r.N(3, 12)
			for rep := 0; rep < reps; rep++ {
				rng := rand.New(rand.NewSource(caseSeed(r.Seed, 5000, scen)))
				scen++
				nB := n
				if cons == "xpoa" && rep%3 == 2 {
					nB = 1 + rng.Intn(10)
				}
				overlap := 0
				switch rep % 3 {
				case 1:
					overlap = rng.Intn(n + 1)
				case 2:
					if T > 0 {
						overlap = T - 1 // as many shared members as possible without B being a quorum of A
					}
				}
				A, B, Z := pickSets(rng, n, nB, overlap, universe)
				s, err := newScenario(m, cons, A, B, Z)
				if err != nil {
					r.Inconclusive("could not build " + cons + " instance: " + err.Error())
					continue
				}
				r.Count(cons+".instances", 1)
				w := makeWorld(A, nil, nil)
				idx := 0
				do := func(tag string, toks []Tok, fresh bool, view int64, ppos int) {
					c := &BcsCase{Cons: cons, Tag: tag, A: A, B: B, Z: Z, ProposerPos: ppos, Toks: toks, Fresh: fresh, ClaimedView: view,
						Seed: caseSeed(r.Seed, 6000+int64(scen), idx)}
					idx++
					crng := rand.New(rand.NewSource(c.Seed))
					res := s.run(c, crng)
					judgeBcs(r, s, c, res)
				}
				valid := func(members []int) []Tok {
					var t []Tok
					for _, x := range members {
						t = append(t, Tok{KValid, x})
					}
					return t
				}
				for ppos := 0; ppos < len(B); ppos++ {
					if ppos > 1 && ppos != len(B)-1 {
						continue
					}
					col := posIn(A, B[ppos])
					// members of A other than the proposer, in random order
					var others []int
					for _, x := range rng.Perm(n) {
						if x != col {
							others = append(others, x)
						}
					}
					do("signed-by-all-of-A", valid(seq(n)), false, tipHeight, ppos)
					if len(others) >= T {
						do("exactly-threshold-of-A-without-proposer", valid(others[:T]), false, tipHeight, ppos)
						pad := valid(others[:T])
						for k := 0; k < 3; k++ {
							pad = append(pad, Tok{KNonMem, rng.Intn(len(w.Outsiders))})
							if T > 0 {
								pad = append(pad, Tok{KValid, others[k%T]})
							}
						}
						do("threshold-of-A-padded", pad, true, tipHeight, ppos)
					}
					if T >= 1 {
						few := rng.Perm(n)[:T-1]
						do("threshold-1-of-A", valid(few), false, tipHeight, ppos)
						if T >= 2 {
							for _, fresh := range []bool{false, true} {
								t := valid(few)
								for k := 0; k < n; k++ {
									t = append(t, Tok{KValid, few[k%len(few)]})
								}
								do("threshold-1-plus-repeats", t, fresh, tipHeight, ppos)
							}
						}
						in := map[int]bool{}
						for _, x := range few {
							in[x] = true
						}
						for _, kind := range []string{KWrongID, KCorrupt, KMismatch} {
							t := valid(few)
							for x := 0; x < n; x++ {
								if !in[x] {
									t = append(t, Tok{kind, x})
								}
							}
							do("threshold-1-plus-invalid-"+kind, t, false, tipHeight, ppos)
						}
						// too few of A, topped up with the members of B that are not in A
						t := valid(few)
						for _, u := range B {
							if posIn(A, u) < 0 {
								t = append(t, Tok{KNonMem, posIn(w.Outsiders, u)})
							}
						}
						do("too-few-of-A-plus-rest-of-B", t, false, tipHeight, ppos)
					}
					do("signed-by-current-set-B", toksSignedBy(w, A, B), false, tipHeight, ppos)
					do("signed-by-older-set-Z", toksSignedBy(w, A, Z), false, tipHeight, ppos)
					// the certificate claims an old view (8: its set would be read from snapshot@4 = Z)
					do("claimed-old-view-signed-by-Z", toksSignedBy(w, A, Z), false, 8, ppos)
					do("claimed-old-view-signed-by-A", valid(seq(n)), false, 8, ppos)
				}
				// random mixtures
				for k := r.N(12, 60); k > 0; k-- {
					D := T - 2 + rng.Intn(4)
					if D < 0 {
						D = 0
					}
					if D > n {
						D = n
					}
					members := rng.Perm(n)[:D]
					t := valid(members)
					if D > 0 {
						for c := rng.Intn(n + 2); c > 0 && rng.Intn(3) != 0; c-- {
							t = append(t, Tok{KValid, members[rng.Intn(D)]})
						}
					}
					for c := rng.Intn(4); c > 0 && rng.Intn(2) == 0; c-- {
						t = append(t, Tok{KNonMem, rng.Intn(len(w.Outsiders))})
					}
					if rng.Intn(3) == 0 {
						kinds := []string{KWrongID, KCorrupt, KMismatch, KForeign}
						t = append(t, Tok{kinds[rng.Intn(len(kinds))], rng.Intn(n)})
					}
					rng.Shuffle(len(t), func(i, j int) { t[i], t[j] = t[j], t[i] })
					do("random", t, rng.Intn(2) == 0, tipHeight, rng.Intn(len(B)))
				}
				s.stop()
			}
		}
		fmt.Fprintf(os.Stderr, "c14: %s done (%d scenarios so far)\n", cons, scen)
	}
}

func bcsFloors(r *ev.Run) {
	for _, c := range []string{"tdpos", "xpoa"} {
		via := c + ".CheckMinerMatch"
		r.Floor(c+".instances", 25)
		r.Floor(via+".accepted", 50)
		r.Floor(via+".rejected", 50)
		r.Floor(via+".oracle.must-accept", 50)
		r.Floor(via+".oracle.must-reject", 50)
		r.Floor(via+".wrong-set-must-fail", 30)
		r.Floor(via+".tag.signed-by-current-set-B", 20)
		r.Floor(via+".tag.threshold-1-plus-repeats", 20)
	}
}
