package main

// The vote-counting model of C14, written from the property statement only.
//
// A certificate is a sequence of signature entries over a certified proposal id. Given the
// validator set in force (n members) the model computes
//
//	D  = number of DISTINCT members that have at least one entry whose address, public key and
//	     signature are consistent and whose signature verifies over the CERTIFIED id
//	T  = n - floor((n-1)/3) - 1
//
// Must-reject : D < T (D counts the collector's own signature too: the lenient reading).
// Must-accept : D without the collector >= T (the strict reading) and no entry is invalid.
// Everything in between is allowed either way (see DESIGN.md C14 *Allowed*).

import (
	"fmt"
	"sort"
	"strings"
)

// Entry kinds.
const (
	KValid    = "V" // member I, consistent address/key, valid signature over the certified id
	KNonMem   = "N" // identity outside the validator set, consistent, valid signature over the certified id
	KWrongID  = "W" // member I, consistent address/key, valid signature over ANOTHER id
	KCorrupt  = "C" // member I, consistent address/key, damaged signature bytes
	KMismatch = "M" // member I's address with another identity's key (and that identity's valid signature)
	KForeign  = "F" // non-member address carrying a member's key and that member's valid signature
)

// Tok is one entry of a certificate, symbolically. I is a position in the validator set
// (or an outsider index for N / F).
type Tok struct {
	K string
	I int
}

func (t Tok) String() string { return fmt.Sprintf("%s%d", t.K, t.I) }

// invalid says whether the entry fails verification on its own (as opposed to being a valid
// signature that merely does not count).
func (t Tok) invalid() bool {
	return t.K == KWrongID || t.K == KCorrupt || t.K == KMismatch || t.K == KForeign
}

// Threshold is the number of distinct member signatures, besides the collector, that the
// statement asks for.
func Threshold(n int) int {
	return n - floorDiv(n-1, 3) - 1
}

func floorDiv(a, b int) int {
	q := a / b
	if (a%b != 0) && ((a < 0) != (b < 0)) {
		q--
	}
	return q
}

// Verdict of the model for one certificate.
type Verdict struct {
	N, T        int
	DIncl       int // distinct members with a valid entry, collector included
	DExcl       int // ... collector excluded
	Invalid     int // number of invalid entries
	Repeats     int // valid member entries beyond the first of each member
	NonMembers  int
	MustReject  bool
	MustAccept  bool
	Padded      bool // must-accept case that contains neutral entries (repeats / non-members)
	KindsInCert map[string]int
}

// Judge evaluates a certificate. collector is the position of the collector in the validator
// set, or -1 when the collector is not a member.
func Judge(n int, toks []Tok, collector int) Verdict {
	v := Verdict{N: n, T: Threshold(n), KindsInCert: map[string]int{}}
	seen := map[int]int{}
	for _, t := range toks {
		v.KindsInCert[t.K]++
		switch {
		case t.K == KValid:
			seen[t.I]++
		case t.K == KNonMem:
			v.NonMembers++
		case t.invalid():
			v.Invalid++
		}
	}
	for m, c := range seen {
		v.DIncl++
		if m != collector {
			v.DExcl++
		}
		v.Repeats += c - 1
	}
	v.MustReject = v.DIncl < v.T
	v.MustAccept = v.DExcl >= v.T && v.Invalid == 0
	v.Padded = v.MustAccept && (v.Repeats > 0 || v.NonMembers > 0)
	return v
}

// WrongAcceptSignature names, structurally, the smallest relaxation of the counting rule that
// explains why an insufficient certificate was accepted. The relaxations are tried in a fixed
// order, so one defect always maps to one signature.
func WrongAcceptSignature(v Verdict, toks []Tok) string {
	cnt := func(kinds ...string) int {
		c := 0
		for _, k := range kinds {
			c += v.KindsInCert[k]
		}
		return c
	}
	need := v.T - v.DIncl
	neutral := v.Repeats + cnt(KNonMem)
	switch {
	case v.Repeats >= need && cnt(KWrongID, KCorrupt, KMismatch) == 0:
		return "qc|repeated-member-signature-counted"
	case cnt(KNonMem) > 0 && neutral >= need && v.Invalid == 0:
		return "qc|non-member-signature-counted"
	case cnt(KWrongID) > 0 && neutral+cnt(KWrongID) >= need && cnt(KCorrupt, KMismatch, KForeign) == 0:
		return "qc|signature-over-another-id-counted"
	case cnt(KCorrupt) > 0 && neutral+cnt(KCorrupt) >= need && cnt(KWrongID, KMismatch, KForeign) == 0:
		return "qc|invalid-signature-counted"
	case cnt(KMismatch, KForeign) > 0 && neutral+cnt(KMismatch, KForeign) >= need && cnt(KWrongID, KCorrupt) == 0:
		return "qc|address-key-mismatch-counted"
	case len(toks) == cnt(KValid) && v.Repeats == 0:
		return "qc|too-few-distinct-signatures-accepted"
	}
	return "qc|insufficient-certificate-accepted"
}

// shapeOf identifies a certificate up to entry order and key material.
func shapeOf(toks []Tok) string {
	s := make([]string, len(toks))
	for i, t := range toks {
		s[i] = t.String()
	}
	sort.Strings(s)
	return strings.Join(s, ",")
}
