// C14: quorum certificates need a quorum of distinct, valid validator signatures.
package main

import (
	"fmt"
	"os"

	"verif/ev"
	sn "verif/simnode"
)

func main() {
	r := ev.Start("C14", "exploration",
		"certificates = sequences of REAL ECDSA signature entries (valid member, repeated member with same / different signature bytes, non-member, member over another id, "+
			"damaged signature, address/key mismatch) over a certified id, for validator sets of 1..10 of 10 fixed keys; EXHAUSTIVE multisets of <= n+2 entries for n=1..4, "+
			"systematic threshold-1 / threshold certificates padded with repeats and non-members plus seeded random mixtures for n=5..10; each is given to the real "+
			"DefaultSaftyRules.CheckProposal and to real tdpos / xpoa instances through CheckMinerMatch over a stub ledger whose previous block prescribes another validator set "+
			"than the current one; the answer is compared with a vote-counting model written from the statement (distinct valid members vs n-floor((n-1)/3)-1). "+
			"A case is distinct by (entry point, n, collector role, multiset of entry kinds per member, signature-bytes policy); non-trivial = has an entry that must not count "+
			"or lies within 1 of the threshold. CalVotesThreshold is tabulated for n=0..40; CheckVote gets every entry kind as a single vote")
	sn.InitLogs()
	m := NewMaterial()

	canonicalProbes(r, m)
	thresholdTable(r, m)
	checkVotes(r, m)
	exhaustiveSmall(r, m)
	boundaryAndRandom(r, m)
	bcsPart(r, m)

	r.Exhaustive(false) // the n<=4 box is exhaustive (see counters exhaustive.*), n=5..10 is sampled
	r.Extra("exhaustive_box", "all multisets of <= n+2 entries over {valid, non-member, wrong-id, damaged, mismatch} x members, n = 1..4")
	r.Floor("exhaustive.multisets.n=4", 100000)
	r.Floor("exhaustive.multisets.n=3", 8000)
	r.Floor("kind.repeat", 1000)
	r.Floor("kind.repeat-with-different-signature-bytes", 500)
	for _, k := range []string{KValid, KNonMem, KWrongID, KCorrupt, KMismatch, KForeign} {
		r.Floor("kind."+k, 100)
	}
	r.Floor("CheckProposal.boundary.threshold-1", 200)
	r.Floor("CheckProposal.boundary.threshold", 200)
	r.Floor("CheckProposal.oracle.must-accept", 200)
	r.Floor("CheckProposal.oracle.must-reject", 200)
	r.Floor("CheckProposal.accepted", 100)
	r.Floor("CheckProposal.rejected", 100)
	r.Floor("threshold.table.cells", 900)
	r.Floor("CheckVote.accepted", 10)
	r.Floor("CheckVote.rejected", 50)
	bcsFloors(r)
	r.Assume("the 'collector' of a certificate is the signer of the proposal that carries it (block proposer in CheckMinerMatch); whether its own signature counts is not enforced: must-reject uses the count WITH it, must-accept the count WITHOUT it")
	r.Assume("ECDSA / address derivation of the crypto client are trusted (validity of an entry is by construction: which key signed which id)")
	r.Assume("the stub ledger answers QueryBlock / QueryBlockByHeight / CreateSnapshot consistently; validator-set contract state is injected as snapshot content, not produced by contract calls")
	fmt.Fprintln(os.Stderr, "c14: done")
	sn.CleanupScratch()
	r.Finish()
}
