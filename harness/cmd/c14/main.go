// C14: quorum certificates need a quorum of distinct, valid validator signatures.
package main

import (
	"fmt"
	"os"
	"time"

	"verif/ev"
	sn "verif/simnode"
)

func main() {
	r := ev.Start("C14", "exploration",
		"certificates = sequences of REAL ECDSA signature entries (valid member, repeated member with same / different signature bytes, non-member, member over another id "+
			"or over the carrying proposal's id, damaged signature, address/key mismatch) over a certified id, for validator sets of 1..10 out of 10 fixed keys (+10 fixed outsiders); "+
			"EXHAUSTIVE multisets of <= n+2 entries for n=1..4 (thorough: 1..5) in 3 entry orders, systematic threshold-1 / threshold certificates padded with repeats and "+
			"non-members plus seeded random mixtures for n=5..10. Each certificate is given (1) to the real DefaultSaftyRules.CheckProposal, (2) inside a block to real tdpos / xpoa "+
			"instances (exported constructors) through CheckMinerMatch over a stub ledger whose certified block, current block and older blocks prescribe three different validator "+
			"sets (the one in force holds at exactly one snapshot height); (3) vote-message streams (honest votes + one kind of non-honest message) are fed to a real Smr collector. "+
			"Answers are compared with a vote-counting model written from the statement (distinct valid members vs n-floor((n-1)/3)-1). A case is distinct by (entry point, n, "+
			"collector role, multiset of entry kinds per member, signature-bytes policy / set overlap / message sequence); non-trivial = contains an entry that must not count or lies "+
			"within 1 of the threshold. CalVotesThreshold is tabulated for n=0..40 x inputs 0..n+3; CheckVote gets every entry kind as a vote. "+
			"(4) HISTORY differential: long-lived real Smr instances live through seeded histories (proposal messages, justify merges of confirmed / sibling blocks into the vote store, "+
			"vote collection, votes re-loaded after restart) and check certificates of the same classes after every step; every verdict must be the model's and a fresh instance's; the same "+
			"for tdpos / xpoa instances before / after ProcessConfirmBlock of accepted blocks and their redo siblings. (5) READ FAULTS: every ledger read of one tdpos / xpoa CheckMinerMatch call "+
			"is failed in turn (alone / with all later reads): a block refused with healthy storage must not be accepted; nil / empty validator lists never make a certificate acceptable; "+
			"the collector with an election whose k-th validator lookup answers nil / empty (what tdpos / xpoa GetValidators do on a failed read) never certifies below the threshold")
	sn.InitLogs()
	m := NewMaterial()

	t0 := time.Now() // progress output only, never part of a verdict
	step := func(name string, f func(*ev.Run, *Material)) {
		f(r, m)
		fmt.Fprintf(os.Stderr, "c14: %-18s done at %5.1fs\n", name, time.Since(t0).Seconds())
	}
	step("canonical probes", canonicalProbes)
	step("threshold table", thresholdTable)
	step("CheckVote", checkVotes)
	step("exhaustive", exhaustiveSmall)
	step("boundary+random", boundaryAndRandom)
	step("tdpos/xpoa", bcsPart)
	step("collector", collectorPart)
	step("collector-concurrent", concurrentDupPart)
	step("proposal-path", proposalPathPart)
	step("reorg", reorgPart)
	step("empty validator list", emptySetProbes)
	step("history", historyPart)
	step("history tdpos/xpoa", bcsHistoryPart)
	step("read faults", readFaultPart)
	step("collector lookup faults", collectorLookupFaultPart)

	r.Exhaustive(false) // the n<=4 box is exhaustive (see counters exhaustive.*), n=5..10 is sampled
	r.Extra("exhaustive_box", "all multisets of <= n+2 entries over {valid, non-member, wrong-id, damaged, mismatch} x members, n = 1..4")
	r.Floor("exhaustive.multisets.n=4", 100000)
	r.Floor("exhaustive.multisets.n=3", 8000)
	r.Floor("kind.repeat", 1000)
	r.Floor("kind.repeat-with-different-signature-bytes", 500)
	for _, k := range []string{KValid, KNonMem, KWrongID, KCorrupt, KMismatch, KForeign} {
		r.Floor("kind."+k, 100)
	}
	r.Floor("CheckProposal.boundary.threshold-1", 200)
	r.Floor("CheckProposal.boundary.threshold", 200)
	r.Floor("CheckProposal.oracle.must-accept", 200)
	r.Floor("CheckProposal.oracle.must-reject", 200)
	r.Floor("CheckProposal.accepted", 100)
	r.Floor("CheckProposal.rejected", 100)
	r.Floor("threshold.table.cells", 900)
	r.Floor("CheckVote.accepted", 10)
	r.Floor("CheckVote.rejected", 50)
	bcsFloors(r)
	collectorFloors(r)
	historyFloors(r)
	readFaultFloors(r)
	r.Assume("the 'collector' of a certificate is the signer of the proposal that carries it (block proposer in CheckMinerMatch); whether its own signature counts is not enforced: must-reject uses the count WITH it, must-accept the count WITHOUT it")
	r.Assume("ECDSA / address derivation of the crypto client are trusted (validity of an entry is by construction: which key signed which id)")
	r.Assume("collector part: the private smr handlers handleReceivedProposal / handleReceivedVoteMsg are called synchronously through verif-tagged wrappers (export_verif.go) instead of through the network goroutines; 'certified' is observed as Smr.GetHighQC() == voted proposal")
	r.Assume("history part: UpdateJustifyQcStatus / UpdateQcStatus / LoadVotes are called the way tdpos / xpoa ProcessConfirmBlock and their constructors call them; a 'fresh instance' is a new DefaultSaftyRules over a pending tree holding the certified proposal; the long-lived instance is asked first")
	r.Assume("read-fault part: a storage fault is an error returned by QueryBlock / QueryBlockByHeight / CreateSnapshot / snapshot Get of the stub ledger; a panic under an injected fault is counted (readfault.*.panic-under-fault), not judged")
	r.Assume("the stub ledger answers QueryBlock / QueryBlockByHeight / CreateSnapshot consistently; validator-set contract state is injected as snapshot content, not produced by contract calls")
	fmt.Fprintln(os.Stderr, "c14: done")
	sn.CleanupScratch()
	r.Floor("collector.concurrent.trials", 100)
	r.Floor("proposalpath.weak-certificates", 400)
	r.Floor("proposalpath.root-moved", 20)
	r.Finish()
}
