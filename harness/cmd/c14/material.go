package main

// Real key material: 10 fixed validator identities (simnode.Keys) plus 10 fixed outsiders, and
// real ECDSA signatures produced through the chained-bft crypto helper (SignVoteMsg), i.e.
// exactly what VerifyVoteMsgSign expects.

import (
	"encoding/hex"
	"fmt"
	"math/rand"
	"sync"

	cCrypto "github.com/xuperchain/xupercore/kernel/consensus/base/driver/chained-bft/crypto"
	bftpb "github.com/xuperchain/xupercore/kernel/consensus/base/driver/chained-bft/pb"
	cctx "github.com/xuperchain/xupercore/kernel/consensus/context"

	sn "verif/simnode"
)

const numOutsiders = 10

type Material struct {
	mu   sync.Mutex
	ids  []*sn.Key // universe: 0..9 simnode keys, 10..19 outsiders
	cb   []*cCrypto.CBFTCrypto
	sigs map[string][]byte
}

func NewMaterial() *Material {
	m := &Material{sigs: map[string][]byte{}}
	m.ids = append(m.ids, sn.Keys()...)
	c := sn.Crypto()
	for i := 0; i < numOutsiders; i++ {
		seed := []byte(fmt.Sprintf("verif-c14-outsider-seed-%02d-0123456789abcdef0123456789abcdef", i))
		priv, err := c.GenerateKeyBySeed(seed)
		if err != nil {
			panic(err)
		}
		addr, _ := c.GetAddressFromPublicKey(&priv.PublicKey)
		pub, _ := c.GetEcdsaPublicKeyJsonFormatStr(priv)
		pj, _ := c.GetEcdsaPrivateKeyJsonFormatStr(priv)
		m.ids = append(m.ids, &sn.Key{Name: fmt.Sprintf("out%d", i), Address: addr, PubJSON: pub, PrivJSON: pj, Priv: priv})
	}
	for _, k := range m.ids {
		m.cb = append(m.cb, cCrypto.NewCBFTCrypto(m.AddressOf(k), c))
	}
	return m
}

// AddressOf builds the consensus-context address structure of an identity.
func (m *Material) AddressOf(k *sn.Key) *cctx.Address {
	return &cctx.Address{Address: k.Address, PrivateKey: k.Priv, PrivateKeyStr: k.PrivJSON, PublicKey: &k.Priv.PublicKey, PublicKeyStr: k.PubJSON}
}

// Sig returns a real signature of identity u over id; variant selects one of several
// different (all valid) signatures - ECDSA is randomised, one signer can produce many.
func (m *Material) Sig(u int, id []byte, variant int) []byte {
	key := fmt.Sprintf("%d|%s|%d", u, hex.EncodeToString(id), variant)
	m.mu.Lock()
	defer m.mu.Unlock()
	if s, ok := m.sigs[key]; ok {
		return s
	}
	for try := 0; ; try++ {
		qs, err := m.cb[u].SignVoteMsg(id)
		if err != nil {
			panic(err)
		}
		dup := false
		for v := 0; v < variant; v++ {
			if o, ok := m.sigs[fmt.Sprintf("%d|%s|%d", u, hex.EncodeToString(id), v)]; ok && string(o) == string(qs.Sign) {
				dup = true
			}
		}
		if !dup || try > 8 {
			m.sigs[key] = qs.Sign
			return qs.Sign
		}
	}
}

// World is the frame one certificate is built in.
type World struct {
	Set       []int  // validator set: universe indices, in validator order
	Outsiders []int  // universe indices that are not members
	X, Y      []byte // certified id, some other id
	P         []byte // id of the proposal that carries the certificate (may be nil)
	SigBase   int    // first signature variant used for valid member entries
}

func (w *World) Addrs(m *Material) []string {
	a := make([]string, len(w.Set))
	for i, u := range w.Set {
		a[i] = m.ids[u].Address
	}
	return a
}

func makeWorld(set []int, x, y []byte) *World {
	in := map[int]bool{}
	for _, u := range set {
		in[u] = true
	}
	w := &World{Set: set, X: x, Y: y}
	for u := 0; u < sn.NumKeys+numOutsiders; u++ {
		if !in[u] {
			w.Outsiders = append(w.Outsiders, u)
		}
	}
	return w
}

// Build turns symbolic entries into real signature entries. freshRepeat: the k-th copy of one
// member's valid entry carries a different signature (variant k%3) instead of the same bytes.
// rng picks the sub-variant of damaged entries; desc records what was built.
func (m *Material) Build(w *World, toks []Tok, freshRepeat bool, rng *rand.Rand) (out []*bftpb.QuorumCertSign, desc []string) {
	occ := map[int]int{}
	for _, t := range toks {
		var e *bftpb.QuorumCertSign
		d := t.String()
		switch t.K {
		case KValid:
			u := w.Set[t.I]
			v := w.SigBase % 3
			if freshRepeat {
				v = (w.SigBase + occ[t.I]) % 3
			}
			occ[t.I]++
			e = &bftpb.QuorumCertSign{Address: m.ids[u].Address, PublicKey: m.ids[u].PubJSON, Sign: m.Sig(u, w.X, v)}
			d += fmt.Sprintf("/sig%d", v)
		case KNonMem:
			u := w.Outsiders[t.I%len(w.Outsiders)]
			e = &bftpb.QuorumCertSign{Address: m.ids[u].Address, PublicKey: m.ids[u].PubJSON, Sign: m.Sig(u, w.X, 0)}
		case KWrongID:
			u := w.Set[t.I]
			other := w.Y
			if w.P != nil && rng.Intn(2) == 0 {
				other = w.P // the member signed the NEW proposal instead of the certified one
				d += "/over-carrying-proposal"
			}
			e = &bftpb.QuorumCertSign{Address: m.ids[u].Address, PublicKey: m.ids[u].PubJSON, Sign: m.Sig(u, other, 0)}
		case KCorrupt:
			u := w.Set[t.I]
			good := m.Sig(u, w.X, 0)
			bad := append([]byte(nil), good...)
			switch rng.Intn(5) {
			case 0: // flip one bit in the last byte (inside s)
				bad[len(bad)-1] ^= 0x01
				d += "/flip-s"
			case 1: // flip one bit inside r
				bad[6] ^= 0x10
				d += "/flip-r"
			case 2:
				bad = bad[:len(bad)/2]
				d += "/truncated"
			case 3:
				bad = []byte{}
				d += "/empty"
			case 4: // every byte zero
				for i := range bad {
					bad[i] = 0
				}
				d += "/zero"
			}
			e = &bftpb.QuorumCertSign{Address: m.ids[u].Address, PublicKey: m.ids[u].PubJSON, Sign: bad}
		case KMismatch:
			u := w.Set[t.I]
			// the other identity: next member if there is one, else an outsider
			var o int
			if len(w.Set) > 1 && rng.Intn(3) != 0 {
				o = w.Set[(t.I+1+rng.Intn(len(w.Set)-1))%len(w.Set)]
			} else {
				o = w.Outsiders[rng.Intn(len(w.Outsiders))]
			}
			if rng.Intn(2) == 0 {
				// member's address, other's key, other's valid signature
				e = &bftpb.QuorumCertSign{Address: m.ids[u].Address, PublicKey: m.ids[o].PubJSON, Sign: m.Sig(o, w.X, 0)}
				d += "/addr+otherkey+othersig"
			} else {
				// member's address and key, other's valid signature
				e = &bftpb.QuorumCertSign{Address: m.ids[u].Address, PublicKey: m.ids[u].PubJSON, Sign: m.Sig(o, w.X, 0)}
				d += "/addr+key+othersig"
			}
		case KForeign:
			o := w.Outsiders[t.I%len(w.Outsiders)]
			u := w.Set[rng.Intn(len(w.Set))]
			e = &bftpb.QuorumCertSign{Address: m.ids[o].Address, PublicKey: m.ids[u].PubJSON, Sign: m.Sig(u, w.X, 0)}
		default:
			panic("unknown token " + t.K)
		}
		out = append(out, e)
		desc = append(desc, d)
	}
	return
}
