package main

// Reorganisation differential: a long-lived tdpos / xpoa instance judges a block on branch 1 (which
// warms whatever it keeps per height), then the ledger re-organises to branch 2 - other block ids
// from height 3 on, ANOTHER validator set in force for the certified view - and candidate blocks
// of branch 2 are judged. Each must get the verdict a fresh instance gives on branch 2: the
// validator set is a function of the block's own chain, not of what the node looked at before.

import (
	"fmt"
	"math/rand"

	"verif/ev"
)

func reorgPart(r *ev.Run, m *Material) {
	universe := len(m.ids)
	trials := r.N(24, 300)
	for t := 0; t < trials; t++ {
		rng := rand.New(rand.NewSource(caseSeed(r.Seed, 9900, t)))
		cons := []string{"xpoa", "tdpos"}[t%2]
		n := 3 + rng.Intn(4)
		T := Threshold(n)
		if T < 1 {
			continue
		}
		// A1 / A2: the sets in force for view 12 on the two branches, sharing only the proposer
		perm := rng.Perm(universe)
		if 2*n-1+2 > universe {
			continue
		}
		A1 := append([]int{}, perm[:n]...)
		A2 := append([]int{perm[0]}, perm[n:2*n-1]...)
		B := append([]int{}, A1...) // the set in force for the candidate block itself (same on both branches)
		Z := append([]int{}, perm[2*n-1:2*n+1]...)
		for len(Z) < n {
			Z = append(Z, Z[0])
		}
		long, err := newScenario(m, cons, A1, B, Z[:min(len(Z), n)])
		if err != nil {
			r.Count("reorg.skipped", 1)
			continue
		}
		fresh, err := newScenario(m, cons, A2, B, Z[:min(len(Z), n)])
		if err != nil {
			long.stop()
			r.Count("reorg.skipped", 1)
			continue
		}
		fresh.fork = 1
		fresh.buildChain()
		valid := func(k int) []Tok {
			var o []Tok
			for i := 0; i < k; i++ {
				o = append(o, Tok{KValid, i})
			}
			return o
		}
		mk := func(tag string, set []int, toks []Tok) *BcsCase {
			return &BcsCase{Cons: cons, Tag: tag, A: set, B: B, Z: Z, ProposerPos: 0, Toks: toks, ClaimedView: tipHeight, Seed: caseSeed(r.Seed, 9950, t)}
		}
		// warm the long-lived instance on branch 1
		warm := long.run(mk("branch1-signed-by-all", A1, valid(n)), rand.New(rand.NewSource(1)))
		if warm.Accepted {
			r.Count("reorg.warmed-accepting", 1)
		}
		long.reorganise(1, A2)
		// candidates on branch 2: certificates signed by the set of branch 2 and by the set of branch 1
		type cand struct {
			tag    string
			signer []int
			k      int
		}
		for _, c := range []cand{{"signed-by-branch2-set", A2, n}, {"threshold-of-branch2-set", A2, T + 1}, {"signed-by-branch1-set", A1, n}, {"threshold-1-of-branch2-set", A2, T}} {
			if c.k > n {
				c.k = n
			}
			// the tokens index the signing set: run() signs with s.A, so point both scenarios at it
			run := func(s *scenario) caseResult {
				keep := s.A
				s.A = c.signer
				defer func() { s.A = keep }()
				return s.run(mk(c.tag, c.signer, valid(c.k)), rand.New(rand.NewSource(7)))
			}
			// (run() reads the validator sets from the stub ledger's snapshots, which use setAt ->
			// s.A; restore before judging so that the LEDGER keeps saying A2)
			gotLong := runWithLedgerSet(long, A2, c.signer, mk(c.tag, c.signer, valid(c.k)))
			gotFresh := runWithLedgerSet(fresh, A2, c.signer, mk(c.tag, c.signer, valid(c.k)))
			_ = run
			r.Case(fmt.Sprintf("reorg|%s|n=%d|%s", cons, n, c.tag), true)
			r.Count("reorg.candidates", 1)
			if gotFresh.Accepted {
				r.Count("reorg.fresh-accepts", 1)
			}
			if gotLong.Accepted != gotFresh.Accepted {
				r.Violation("qc|"+cons+"|verdict-depends-on-branch-judged-before|"+c.tag,
					fmt.Sprintf("%s, n=%d: after a reorganisation to a branch with another validator set for the certified view, a block whose certificate is %s gets accepted=%v (%s) from the long-lived instance and accepted=%v (%s) from a fresh one",
						cons, n, c.tag, gotLong.Accepted, gotLong.Err, gotFresh.Accepted, gotFresh.Err),
					map[string]interface{}{"consensus": cons, "n": n, "certificate": c.tag, "long_lived": gotLong.Accepted, "fresh": gotFresh.Accepted})
				break
			}
		}
		long.stop()
		fresh.stop()
	}
}

// runWithLedgerSet judges a block whose certificate is signed by `signer` while the stub ledger
// says that `ledgerSet` is in force for the certified view.
func runWithLedgerSet(s *scenario, ledgerSet, signer []int, c *BcsCase) caseResult {
	s.signers = signer
	s.A = ledgerSet
	defer func() { s.signers = nil }()
	return s.run(c, rand.New(rand.NewSource(7)))
}

func min(a, b int) int {
	if a < b {
		return a
	}
	return b
}
