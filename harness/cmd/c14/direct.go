package main

// Part 1: DefaultSaftyRules.CheckProposal / CheckVote / CalVotesThreshold driven directly.

import (
	"container/list"
	"fmt"
	"math/rand"
	"os"
	"runtime"
	"sync"

	bft "github.com/xuperchain/xupercore/kernel/consensus/base/driver/chained-bft"
	cCrypto "github.com/xuperchain/xupercore/kernel/consensus/base/driver/chained-bft/crypto"
	bftpb "github.com/xuperchain/xupercore/kernel/consensus/base/driver/chained-bft/pb"

	"verif/ev"
	sn "verif/simnode"
)

var (
	idX = []byte("verif-c14-certified-proposal-id-X")
	idY = []byte("verif-c14-some-other-proposal-id-Y")
	idP = []byte("verif-c14-new-proposal-id-P")
	idR = []byte("verif-c14-root-id-R")
)

// newRules builds a real DefaultSaftyRules over a pending tree that contains the certified
// proposal X (parentInTree) or not (then the new proposal lies in the orphan window).
func newRules(m *Material, parentInTree bool) *bft.DefaultSaftyRules {
	log := sn.NewCapLogger()
	root := &bft.ProposalNode{In: &bft.QuorumCert{VoteInfo: &bft.VoteInfo{ProposalId: idR, ProposalView: 4, ParentView: 3}}}
	if parentInTree {
		root.Sons = append(root.Sons, &bft.ProposalNode{In: &bft.QuorumCert{VoteInfo: &bft.VoteInfo{ProposalId: idX, ProposalView: 5, ParentId: idR, ParentView: 4}}})
	}
	tree := &bft.QCPendingTree{Genesis: root, Root: root, HighQC: root, CommitQC: root, Log: log, OrphanList: list.New(), OrphanMap: map[string]bool{}}
	return &bft.DefaultSaftyRules{Crypto: cCrypto.NewCBFTCrypto(m.AddressOf(m.ids[0]), sn.Crypto()), QcTree: tree, Log: log}
}

// DirectCase is one certificate checked through CheckProposal.
type DirectCase struct {
	Part        string
	N           int
	Set         []int
	Collector   int // position in Set, -1 = outsider
	Toks        []Tok
	Fresh       bool
	Order       string
	ParentKnown bool
	Seed        int64
	Sample      bool `json:"-"`
}

type caseResult struct {
	Accepted bool
	Err      string
	Panic    string
	Built    []string
}

func runCheckProposal(m *Material, rules *bft.DefaultSaftyRules, c *DirectCase, rng *rand.Rand) caseResult {
	w := makeWorld(c.Set, idX, idY)
	w.P = idP
	signs, desc := m.Build(w, c.Toks, c.Fresh, rng)
	colU := w.Outsiders[0]
	if c.Collector >= 0 {
		colU = c.Set[c.Collector]
	}
	// the collector proposes P on top of X and justifies it with the certificate for X
	proposal := &bft.QuorumCert{
		VoteInfo:  &bft.VoteInfo{ProposalId: idP, ProposalView: 6, ParentId: idX, ParentView: 5},
		SignInfos: []*bftpb.QuorumCertSign{{Address: m.ids[colU].Address, PublicKey: m.ids[colU].PubJSON, Sign: m.Sig(colU, idP, 0)}},
	}
	justify := &bft.QuorumCert{VoteInfo: &bft.VoteInfo{ProposalId: idX, ProposalView: 5, ParentId: idR, ParentView: 4}, SignInfos: signs}
	res := caseResult{Built: desc}
	func() {
		defer func() {
			if p := recover(); p != nil {
				res.Panic = fmt.Sprint(p)
			}
		}()
		err := rules.CheckProposal(proposal, justify, w.Addrs(m))
		res.Accepted = err == nil
		if err != nil {
			res.Err = err.Error()
		}
	}()
	return res
}

// judgeDirect compares the implementation's answer with the model and reports.
func judgeDirect(r *ev.Run, m *Material, c *DirectCase, res caseResult, via string) {
	v := Judge(c.N, c.Toks, c.Collector)
	wit := map[string]interface{}{"via": via, "case": c, "entries": res.Built, "validators": addrsOf(m, c.Set),
		"threshold": v.T, "distinct_valid_members": v.DIncl, "distinct_valid_members_without_collector": v.DExcl,
		"accepted": res.Accepted, "error": res.Err}
	pre := "qc|"
	if via != "CheckProposal" {
		pre = "qc|" + via + "|"
	}
	if res.Panic != "" {
		r.Violation(pre+"panic", fmt.Sprintf("%s panicked on a certificate: %s", via, res.Panic), wit)
		return
	}
	col := "outsider"
	if c.Collector >= 0 {
		col = "member"
		for _, t := range c.Toks {
			if t.K == KValid && t.I == c.Collector {
				col = "member-in-cert"
			}
		}
	}
	nontrivial := len(c.Toks) > 0 && (v.Invalid+v.Repeats+v.NonMembers > 0 || v.DIncl-v.T >= -1 && v.DIncl-v.T <= 1)
	fresh := ""
	if c.Fresh && v.Repeats > 0 {
		fresh = "|freshsig"
	}
	r.Case(fmt.Sprintf("%s|n=%d|col=%s|known=%v|%s%s", via, c.N, col, c.ParentKnown, shapeOf(c.Toks), fresh), nontrivial)
	r.Count(via+".cases", 1)
	if res.Accepted {
		r.Count(via+".accepted", 1)
	} else {
		r.Count(via+".rejected", 1)
	}
	switch {
	case v.MustReject:
		r.Count(via+".oracle.must-reject", 1)
	case v.MustAccept:
		r.Count(via+".oracle.must-accept", 1)
	default:
		r.Count(via+".oracle.either", 1)
	}
	for k := range v.KindsInCert {
		r.Count("kind."+k, 1)
	}
	if v.Repeats > 0 {
		r.Count("kind.repeat", 1)
		if c.Fresh {
			r.Count("kind.repeat-with-different-signature-bytes", 1)
		}
	}
	if v.DIncl == v.T-1 {
		r.Count(via+".boundary.threshold-1", 1)
	}
	if v.DIncl == v.T {
		r.Count(via+".boundary.threshold", 1)
	}
	if v.MustReject && res.Accepted {
		sig := WrongAcceptSignature(v, c.Toks)
		if via != "CheckProposal" {
			sig = pre + sig[len("qc|"):]
		}
		r.Violation(sig, fmt.Sprintf("%s accepted a certificate with %d distinct valid member signature(s) (threshold %d, n=%d): entries %v",
			via, v.DIncl, v.T, c.N, res.Built), wit)
	}
	if v.MustAccept && !res.Accepted {
		sig := pre + "sufficient-certificate-refused"
		if v.Padded {
			sig = pre + "sufficient-certificate-with-neutral-padding-refused"
		}
		r.Violation(sig, fmt.Sprintf("%s refused (%s) a certificate with %d distinct valid member signatures besides the collector (threshold %d, n=%d) and no invalid entry: entries %v",
			via, res.Err, v.DExcl, v.T, c.N, res.Built), wit)
	}
	if c.Part == "canonical" && c.Sample {
		r.Sample(map[string]interface{}{"via": via, "n": c.N, "validators": addrsOf(m, c.Set), "collector_position": c.Collector, "entries": res.Built,
			"threshold": v.T, "distinct_valid": v.DIncl, "model": map[string]bool{"must_reject": v.MustReject, "must_accept": v.MustAccept},
			"accepted": res.Accepted, "error": res.Err})
	}
}

// canonicalProbes: a handful of hand-written certificates run first and sequentially, so that
// the witness of a defect they expose is the same minimal one on every run (DESIGN.md C14
// *Reading*: n = 4, one copy of a member's signature fails, two copies pass).
func canonicalProbes(r *ev.Run, m *Material) {
	rules := newRules(m, true)
	V := func(xs ...int) []Tok {
		var t []Tok
		for _, x := range xs {
			t = append(t, Tok{KValid, x})
		}
		return t
	}
	probes := []struct {
		n     int
		toks  []Tok
		fresh bool
	}{
		{4, V(1), false},                             // threshold 2, one signature: must fail
		{4, V(1, 1), false},                          // the same signature twice: must fail
		{4, V(1, 1), true},                           // two different signatures of one member: must fail
		{4, V(1, 2), false},                          // two members: must pass
		{4, append(V(1, 2), Tok{KNonMem, 0}), false}, // + a non-member: must pass
		{7, V(1, 2, 3, 1, 2, 3, 1), true},            // threshold 4, three members repeated: must fail
		{10, append(V(1, 2, 3, 4, 5), Tok{KNonMem, 0}, Tok{KNonMem, 1}), false}, // threshold 6: five members + 2 non-members: must fail
	}
	for i, p := range probes {
		c := &DirectCase{Part: "canonical", N: p.n, Set: seq(p.n), Collector: 0, Toks: p.toks, Fresh: p.fresh, Order: "canonical", ParentKnown: true,
			Seed: caseSeed(r.Seed, 77, i), Sample: i == 0 || i == 1 || i == 3 || i == 5}
		res := runCheckProposal(m, rules, c, rand.New(rand.NewSource(c.Seed)))
		judgeDirect(r, m, c, res, "CheckProposal")
	}
}

func addrsOf(m *Material, set []int) []string {
	a := make([]string, len(set))
	for i, u := range set {
		a[i] = m.ids[u].Address
	}
	return a
}

// multisets enumerates all multisets of size <= max over alphabet, calling f with each.
func multisets(alphabet []Tok, max int, f func([]Tok)) {
	cur := []Tok{}
	var rec func(start int)
	rec = func(start int) {
		f(append([]Tok(nil), cur...))
		if len(cur) == max {
			return
		}
		for i := start; i < len(alphabet); i++ {
			cur = append(cur, alphabet[i])
			rec(i)
			cur = cur[:len(cur)-1]
		}
	}
	rec(0)
}

func alphabetFor(n int) []Tok {
	var a []Tok
	for i := 0; i < n; i++ {
		a = append(a, Tok{KValid, i})
	}
	a = append(a, Tok{KNonMem, 0})
	for i := 0; i < n; i++ {
		a = append(a, Tok{KWrongID, i})
	}
	for i := 0; i < n; i++ {
		a = append(a, Tok{KCorrupt, i})
	}
	for i := 0; i < n; i++ {
		a = append(a, Tok{KMismatch, i})
	}
	return a
}

func seq(n int) []int {
	s := make([]int, n)
	for i := range s {
		s[i] = i
	}
	return s
}

// parallel runs the generated cases on all cores; each worker owns its rule objects.
// gen calls emit for every case (cases are streamed, never materialised as a list).
func parallel(r *ev.Run, m *Material, gen func(emit func(*DirectCase))) int {
	workers := runtime.NumCPU()
	if workers > 16 {
		workers = 16
	}
	var wg sync.WaitGroup
	ch := make(chan *DirectCase, 4096)
	for w := 0; w < workers; w++ {
		wg.Add(1)
		go func() {
			defer wg.Done()
			known := newRules(m, true)
			orphan := newRules(m, false)
			for c := range ch {
				rng := rand.New(rand.NewSource(c.Seed))
				switch c.Order {
				case "shuffled":
					rng.Shuffle(len(c.Toks), func(a, b int) { c.Toks[a], c.Toks[b] = c.Toks[b], c.Toks[a] })
				case "reversed":
					for a, b := 0, len(c.Toks)-1; a < b; a, b = a+1, b-1 {
						c.Toks[a], c.Toks[b] = c.Toks[b], c.Toks[a]
					}
				}
				rules := known
				if !c.ParentKnown {
					rules = orphan
				}
				res := runCheckProposal(m, rules, c, rng)
				judgeDirect(r, m, c, res, "CheckProposal")
			}
		}()
	}
	n := 0
	gen(func(c *DirectCase) { n++; ch <- c })
	close(ch)
	wg.Wait()
	return n
}

func caseSeed(seed int64, salt int64, idx int) int64 {
	return seed*1000003 + salt*7919 + int64(idx)*104729 + 17
}

// exhaustiveSmall: all multisets of <= n+2 entries for n = 1..4 (thorough: 1..5).
func exhaustiveSmall(r *ev.Run, m *Material) {
	maxN := r.N(4, 5)
	total := 0
	for n := 1; n <= maxN; n++ {
		alpha := alphabetFor(n)
		idx := 0
		cnt := parallel(r, m, func(emit func(*DirectCase)) {
			multisets(alpha, n+2, func(toks []Tok) {
				hasRepeat := false
				seen := map[int]bool{}
				for _, t := range toks {
					if t.K == KValid {
						if seen[t.I] {
							hasRepeat = true
						}
						seen[t.I] = true
					}
				}
				orders := []string{"canonical", "reversed", "shuffled"}
				if len(toks) < 2 {
					orders = orders[:1]
				}
				for _, ord := range orders {
					for _, fresh := range []bool{false, true} {
						if fresh && !hasRepeat {
							continue
						}
						// collector = member 0 (its own signature is token V0) ...
						emit(&DirectCase{Part: "exhaustive", N: n, Set: seq(n), Collector: 0, Toks: append([]Tok(nil), toks...), Fresh: fresh,
							Order: ord, ParentKnown: true, Seed: caseSeed(r.Seed, int64(n), idx)})
						idx++
					}
				}
				// ... and, once per multiset, a collector outside the set (both readings coincide)
				emit(&DirectCase{Part: "exhaustive", N: n, Set: seq(n), Collector: -1, Toks: append([]Tok(nil), toks...), Fresh: false,
					Order: "shuffled", ParentKnown: idx%2 == 0, Seed: caseSeed(r.Seed, int64(n)+50, idx)})
				idx++
				r.Count(fmt.Sprintf("exhaustive.multisets.n=%d", n), 1)
			})
		})
		fmt.Fprintf(os.Stderr, "c14: exhaustive n=%d: %d cases\n", n, cnt)
		total += cnt
	}
	r.Count("exhaustive.cases", total)
}

// boundaryAndRandom: n = 5..10 (and some 1..4 with permuted sets): systematic threshold-1 /
// threshold certificates padded with repeats and non-members, plus random mixtures.
func boundaryAndRandom(r *ev.Run, m *Material) {
	var cases []*DirectCase
	idx := 0
	add := func(part string, set []int, col int, toks []Tok, fresh bool, known bool) {
		cases = append(cases, &DirectCase{Part: part, N: len(set), Set: set, Collector: col, Toks: toks, Fresh: fresh,
			Order: "shuffled", ParentKnown: known, Seed: caseSeed(r.Seed, 1000, idx)})
		idx++
	}
	for n := 5; n <= 10; n++ {
		T := Threshold(n)
		rng := rand.New(rand.NewSource(caseSeed(r.Seed, 2000, n)))
		for _, D := range []int{T - 2, T - 1, T, T + 1, n} {
			if D < 0 || D > n {
				continue
			}
			for _, colMode := range []string{"in-cert", "not-in-cert", "outsider"} {
				set := rng.Perm(sn.NumKeys)[:n]
				members := rng.Perm(n)[:D]
				col := -1
				switch colMode {
				case "in-cert":
					if D == 0 {
						continue
					}
					col = members[rng.Intn(D)]
				case "not-in-cert":
					if D == n {
						continue
					}
					in := map[int]bool{}
					for _, x := range members {
						in[x] = true
					}
					for x := 0; x < n; x++ {
						if !in[x] {
							col = x
						}
					}
				}
				base := []Tok{}
				for _, x := range members {
					base = append(base, Tok{KValid, x})
				}
				cp := func() []Tok { return append([]Tok(nil), base...) }
				// plain
				add("boundary", set, col, cp(), false, true)
				if D > 0 {
					// padded with repeats of one member up to n entries / of all members
					for _, fresh := range []bool{false, true} {
						t := cp()
						for len(t) < n {
							t = append(t, Tok{KValid, members[0]})
						}
						t = append(t, Tok{KValid, members[0]})
						add("boundary", set, col, t, fresh, true)
						t = cp()
						for k := 0; k < 2; k++ {
							for _, x := range members {
								t = append(t, Tok{KValid, x})
							}
						}
						add("boundary", set, col, t, fresh, true)
					}
				}
				// padded with non-members
				t := cp()
				for k := 0; k < n-D+1; k++ {
					t = append(t, Tok{KNonMem, k})
				}
				add("boundary", set, col, t, false, false)
				// repeats and non-members
				if D > 0 {
					t = cp()
					for k := 0; k < n; k++ {
						if k%2 == 0 {
							t = append(t, Tok{KValid, members[k%D]})
						} else {
							t = append(t, Tok{KNonMem, k})
						}
					}
					add("boundary", set, col, t, true, true)
				}
				// the missing members "vote" with something that must not count
				if D < n {
					in := map[int]bool{}
					for _, x := range members {
						in[x] = true
					}
					for _, kind := range []string{KWrongID, KCorrupt, KMismatch, KForeign} {
						t = cp()
						for x := 0; x < n; x++ {
							if !in[x] {
								t = append(t, Tok{kind, x})
							}
						}
						add("boundary", set, col, t, false, true)
					}
				}
			}
		}
	}
	nb := len(cases)
	// random mixtures, all n = 1..10, random validator subsets
	nr := r.N(3000, 120000)
	for k := 0; k < nr; k++ {
		rng := rand.New(rand.NewSource(caseSeed(r.Seed, 3000, k)))
		n := 1 + rng.Intn(10)
		if rng.Intn(4) != 0 {
			n = 5 + rng.Intn(6)
		}
		T := Threshold(n)
		set := rng.Perm(sn.NumKeys)[:n]
		D := T - 2 + rng.Intn(4)
		if rng.Intn(6) == 0 {
			D = rng.Intn(n + 1)
		}
		if D < 0 {
			D = 0
		}
		if D > n {
			D = n
		}
		members := rng.Perm(n)[:D]
		toks := []Tok{}
		for _, x := range members {
			toks = append(toks, Tok{KValid, x})
		}
		if D > 0 {
			for c := rng.Intn(n + 2); c > 0 && rng.Intn(3) != 0; c-- {
				toks = append(toks, Tok{KValid, members[rng.Intn(D)]})
			}
		}
		for c := rng.Intn(4); c > 0 && rng.Intn(2) == 0; c-- {
			toks = append(toks, Tok{KNonMem, rng.Intn(4)})
		}
		if rng.Intn(3) == 0 {
			kinds := []string{KWrongID, KCorrupt, KMismatch, KForeign}
			for c := 1 + rng.Intn(3); c > 0; c-- {
				toks = append(toks, Tok{kinds[rng.Intn(len(kinds))], rng.Intn(n)})
			}
		}
		col := rng.Intn(n+1) - 1
		add("random", set, col, toks, rng.Intn(2) == 0, rng.Intn(3) != 0)
	}
	fmt.Fprintf(os.Stderr, "c14: boundary %d + random %d cases\n", nb, len(cases)-nb)
	r.Count("boundary.cases", nb)
	r.Count("random.cases", len(cases)-nb)
	parallel(r, m, func(emit func(*DirectCase)) {
		for _, c := range cases {
			emit(c)
		}
	})
}

// thresholdTable tabulates CalVotesThreshold against the formula for n = 0..40.
func thresholdTable(r *ev.Run, m *Material) {
	rules := newRules(m, true)
	for n := 0; n <= 40; n++ {
		T := Threshold(n)
		for in := 0; in <= n+3; in++ {
			want := in >= T
			var got bool
			pan := ""
			func() {
				defer func() {
					if p := recover(); p != nil {
						pan = fmt.Sprint(p)
					}
				}()
				got = rules.CalVotesThreshold(in, n)
			}()
			r.Case(fmt.Sprintf("threshold|n=%d|in=%d", n, in), in == T || in == T-1)
			r.Count("threshold.table.cells", 1)
			if pan != "" {
				r.Violation("qc|threshold-panic", "CalVotesThreshold panicked: "+pan, map[string]int{"input": in, "sum": n})
			} else if got != want {
				r.Violation("qc|threshold-formula", fmt.Sprintf("CalVotesThreshold(%d, %d) = %v, statement: n - floor((n-1)/3) - 1 = %d so %v", in, n, got, T, want),
					map[string]interface{}{"input": in, "sum": n, "got": got, "want": want, "threshold": T})
			}
		}
	}
}

// checkVotes drives CheckVote: a single vote is acceptable only if its signer is a member whose
// signature verifies over the voted id.
func checkVotes(r *ev.Run, m *Material) {
	rules := newRules(m, true)
	idx := 0
	for n := 1; n <= 10; n++ {
		rng0 := rand.New(rand.NewSource(caseSeed(r.Seed, 4000, n)))
		set := rng0.Perm(sn.NumKeys)[:n]
		w := makeWorld(set, idX, idY)
		var votes [][]Tok
		votes = append(votes, []Tok{})
		for i := 0; i < n; i++ {
			for _, k := range []string{KValid, KWrongID, KCorrupt, KMismatch} {
				votes = append(votes, []Tok{{k, i}})
			}
			// a bad first entry followed by a good one / a good one followed by a bad one
			votes = append(votes, []Tok{{KCorrupt, i}, {KValid, (i + 1) % n}}, []Tok{{KValid, i}, {KCorrupt, (i + 1) % n}},
				[]Tok{{KWrongID, i}, {KMismatch, (i + 1) % n}})
		}
		votes = append(votes, []Tok{{KNonMem, 0}}, []Tok{{KNonMem, 1}}, []Tok{{KForeign, 0}}, []Tok{{KNonMem, 0}, {KForeign, 1}})
		for _, toks := range votes {
			rng := rand.New(rand.NewSource(caseSeed(r.Seed, 4100, idx)))
			idx++
			signs, desc := m.Build(w, toks, false, rng)
			qc := &bft.QuorumCert{VoteInfo: &bft.VoteInfo{ProposalId: idX, ProposalView: 5, ParentId: idR, ParentView: 4},
				LedgerCommitInfo: &bft.LedgerCommitInfo{VoteInfoHash: idX}, SignInfos: signs}
			var err error
			pan := ""
			func() {
				defer func() {
					if p := recover(); p != nil {
						pan = fmt.Sprint(p)
					}
				}()
				err = rules.CheckVote(qc, "verif", w.Addrs(m))
			}()
			anyValid := false
			for _, t := range toks {
				if t.K == KValid {
					anyValid = true
				}
			}
			single := len(toks) == 1
			r.Case(fmt.Sprintf("CheckVote|n=%d|%v", n, toks), len(toks) > 0)
			r.Count("CheckVote.cases", 1)
			wit := map[string]interface{}{"n": n, "validators": w.Addrs(m), "entries": desc, "accepted": err == nil, "error": fmt.Sprint(err)}
			switch {
			case pan != "":
				r.Violation("qc|CheckVote|panic", "CheckVote panicked: "+pan, wit)
			case !anyValid && err == nil:
				r.Count("CheckVote.wrongly-accepted", 1)
				// structural class of the entry CheckVote looks at (the first one)
				class := "no-signature"
				if len(toks) > 0 {
					f := signs[0]
					_, isMember := indexOf(w.Addrs(m), f.Address)
					keyOK := sn.KeyByAddr(f.Address) != nil && sn.KeyByAddr(f.Address).PubJSON == f.PublicKey
					for _, o := range m.ids {
						if o.Address == f.Address && o.PubJSON == f.PublicKey {
							keyOK = true
						}
					}
					switch {
					case !isMember:
						class = "non-member"
					case !keyOK:
						class = "member-address-with-foreign-key"
					default:
						class = "member-signature-that-does-not-verify"
					}
				}
				r.Violation("qc|CheckVote|accepted|"+class,
					fmt.Sprintf("CheckVote accepted a vote whose entries %v contain no valid member signature over the voted id", desc), wit)
			case single && anyValid && err != nil:
				r.Violation("qc|CheckVote|valid-member-vote-refused", fmt.Sprintf("CheckVote refused (%v) the valid vote %v", err, desc), wit)
			}
			if err == nil {
				r.Count("CheckVote.accepted", 1)
			} else {
				r.Count("CheckVote.rejected", 1)
			}
		}
	}
}

func indexOf(a []string, x string) (int, bool) {
	for i, v := range a {
		if v == x {
			return i, true
		}
	}
	return -1, false
}
