package main

// Read faults behind the validator-set lookup, and the empty validator list.
//
// (1) tdpos / xpoa CheckMinerMatch obtain the validator set in force for the certified view from
// the ledger: block look-ups by height / id, a state snapshot of an older block, reads from that
// snapshot. Each of those reads can fail in a real node (storage error). The validator set in
// force does not change because it cannot be read, so: a block whose certificate is insufficient
// for the set in force (and is refused with healthy storage) must not be ACCEPTED while a read
// fails - an error or a refusal is fine. Every read of one CheckMinerMatch call is failed in turn
// (once alone, once together with every later read: storage that stays broken).
//
// (2) The safety rules themselves: "at least n - floor((n-1)/3) - 1 distinct members of the
// validator set in force" can not be satisfied by a validator list that is nil OR empty - an empty
// list is what a failed / defaulted lookup looks like, never a set in force. Probed directly
// (CheckProposal, CheckVote) and through the smr proposal handler with an election that answers
// with an empty list.

import (
	"container/list"
	"encoding/json"
	"fmt"
	"math/rand"
	"os"

	bft "github.com/xuperchain/xupercore/kernel/consensus/base/driver/chained-bft"
	cCrypto "github.com/xuperchain/xupercore/kernel/consensus/base/driver/chained-bft/crypto"
	bftpb "github.com/xuperchain/xupercore/kernel/consensus/base/driver/chained-bft/pb"
	"github.com/xuperchain/xupercore/kernel/network/p2p"
	"github.com/xuperchain/xupercore/protos"

	"verif/ev"
	sn "verif/simnode"
)

func readFaultPart(r *ev.Run, m *Material) {
	universe := len(m.ids)
	scen := 0
	for _, cons := range []string{"xpoa", "tdpos"} {
		sizes := []int{3, 4, 5, 7}
		if cons == "tdpos" && r.Quick() {
			sizes = []int{3, 4, 5} // a tdpos lookup reads one key per candidate: many reads per call
		}
		reps := r.N(2, 8)
		for _, n := range sizes {
			T := Threshold(n)
			for rep := 0; rep < reps; rep++ {
				rng := rand.New(rand.NewSource(caseSeed(r.Seed, 9300, scen)))
				scen++
				overlap := 0
				if rep%2 == 1 && T > 0 {
					overlap = T - 1
				}
				A, B, Z := pickSets(rng, n, n, overlap, universe)
				s, err := newScenario(m, cons, A, B, Z)
				if err != nil {
					r.Inconclusive("read-fault part: could not build " + cons + " instance: " + err.Error())
					continue
				}
				r.Count("readfault."+cons+".instances", 1)
				readFaultScenario(r, s, rng, scen)
				s.stop()
			}
		}
		fmt.Fprintf(os.Stderr, "c14: read faults %s done (%d scenarios so far)\n", cons, scen)
	}
}

func readFaultScenario(r *ev.Run, s *scenario, rng *rand.Rand, scen int) {
	cons, A, B, Z := s.Cons, s.A, s.B, s.Z
	n := len(A)
	T := Threshold(n)
	w := makeWorld(A, nil, nil)
	valid := func(members []int) []Tok {
		var t []Tok
		for _, x := range members {
			t = append(t, Tok{KValid, x})
		}
		return t
	}
	type cand struct {
		tag   string
		toks  []Tok
		fresh bool
	}
	cands := []cand{{"no-signature", nil, false}, {"signed-by-all-of-A", valid(seq(n)), false}}
	if T >= 1 {
		few := rng.Perm(n)[:T-1]
		cands = append(cands, cand{"threshold-1-of-A", valid(few), false})
		var nm []Tok
		for k := 0; k <= T; k++ {
			nm = append(nm, Tok{KNonMem, k})
		}
		cands = append(cands, cand{"non-members-only", nm, false})
		one := rng.Intn(n)
		var rp []Tok
		for k := 0; k <= T; k++ {
			rp = append(rp, Tok{KValid, one})
		}
		if T >= 2 {
			cands = append(cands, cand{"one-member-repeated", rp, true})
		}
		cands = append(cands, cand{"signed-by-current-set-B", toksSignedBy(w, A, B), false},
			cand{"signed-by-older-set-Z", toksSignedBy(w, A, Z), false})
	}
	ppos := 0
	col := posIn(A, B[ppos])
	via := cons + ".CheckMinerMatch"
	for ci, cd := range cands {
		c := &BcsCase{Cons: cons, Tag: cd.tag, A: A, B: B, Z: Z, ProposerPos: ppos, Toks: cd.toks, Fresh: cd.fresh, ClaimedView: tipHeight,
			Seed: caseSeed(r.Seed, 9400+int64(scen), ci)}
		v := Judge(n, cd.toks, col)
		// the same block every time: the rng that shapes it is re-created from the case seed
		runWith := func(failAt int, sticky bool) (caseResult, int, int, []string, []string) {
			s.faultAt, s.faultSticky = failAt, sticky
			defer func() { s.faultAt, s.faultSticky = 0, false }()
			res := s.run(c, rand.New(rand.NewSource(c.Seed)))
			return res, s.led.reads, s.led.faults, s.led.trace, s.led.failed
		}
		base, reads, _, trace, _ := runWith(0, false)
		if base.Panic != "" {
			continue // the healthy-storage parts report that
		}
		r.Count("readfault."+cons+".candidates", 1)
		r.Count("readfault."+cons+".reads-per-call", reads)
		judged := !base.Accepted && v.MustReject
		if judged {
			r.Count("readfault."+cons+".candidates-refused-with-healthy-storage", 1)
		}
		for k := 1; k <= reads; k++ {
			for _, sticky := range []bool{false, true} {
				if sticky && k == reads {
					continue // same as the single fault
				}
				res, _, faults, _, failed := runWith(k, sticky)
				r.Count("readfault."+cons+".runs", 1)
				if faults == 0 {
					r.Count("readfault."+cons+".fault-not-reached", 1)
					continue
				}
				r.Count("readfault."+cons+".fault-hit", 1)
				r.Count("readfault.read-kind."+failed[0], 1)
				mode := "single"
				if sticky {
					mode = "from-this-read-on"
				}
				r.Case(fmt.Sprintf("read-fault|%s|n=%d|%s|read=%d/%d:%s|%s", cons, n, cd.tag, k, reads, failed[0], mode), judged)
				switch {
				case res.Panic != "":
					// not an acceptance; counted and shown in the evidence, no verdict of C14 hinges on it
					r.Count("readfault."+cons+".panic-under-fault", 1)
					if r.Counter("sampled.readfault.panic."+cons+"."+failed[0]) == 0 {
						r.Count("sampled.readfault.panic."+cons+"."+failed[0], 1)
						r.Extra("readfault_panic_"+cons+"_"+failed[0], map[string]interface{}{"via": via, "note": "panic while a storage read fails (counted as not accepted)",
							"failed_read": failed[0], "read_number": k, "reads": trace, "panic": res.Panic})
					}
				case res.Accepted:
					r.Count("readfault."+cons+".accepted-under-fault", 1)
				default:
					r.Count("readfault."+cons+".refused-under-fault", 1)
				}
				if !base.Accepted && !res.Accepted && res.Panic == "" {
					r.Count("readfault."+cons+".refusal-kept-under-fault", 1)
				}
				if judged && res.Accepted {
					r.Violation("qc|"+cons+"|read-fault-turns-refusal-into-acceptance",
						fmt.Sprintf("%s, n=%d (threshold %d besides the proposer): block 13 whose certificate for block 12 is '%s' (%d distinct valid signatures of the set in force) is refused with healthy storage (%s) but ACCEPTED while read %d of %d (%s, %s) fails",
							via, n, T, cd.tag, v.DIncl, base.Err, k, reads, failed[0], mode),
						map[string]interface{}{"via": via, "case": c, "entries": base.Built, "set_in_force_for_certified_block(A)": s.addrs(A), "set_of_current_block(B)": s.addrs(B),
							"init_set(Z)": s.addrs(Z), "threshold": v.T, "distinct_valid_members_of_A": v.DIncl, "healthy_storage": base.Err, "reads_of_one_call": trace,
							"failed_read_number": k, "failed_reads": failed, "mode": mode, "accepted_under_fault": true, "log": s.log.Tail(4)})
					return
				}
			}
		}
	}
}

func readFaultFloors(r *ev.Run) {
	for _, c := range []string{"xpoa", "tdpos"} {
		r.Floor("readfault."+c+".instances", 4)
		r.Floor("readfault."+c+".candidates-refused-with-healthy-storage", 15)
		r.Floor("readfault."+c+".fault-hit", 300)
		r.Floor("readfault."+c+".refusal-kept-under-fault", 200)
	}
	for _, k := range []string{"QueryBlock", "QueryBlockByHeight", "CreateSnapshot", "XMReader.Get"} {
		r.Floor("readfault.read-kind."+k, 20)
	}
	r.Floor("emptyset.probes", 20)
	r.Floor("collector.lookup-fault.streams", 100)
	r.Floor("collector.lookup-fault.hit", 50)
}

// emptySetProbes: a nil or empty validator list never makes a certificate (or a vote) acceptable.
func emptySetProbes(r *ev.Run, m *Material) {
	rules := newRules(m, true)
	set := seq(4) // identities that sign; none of them is a member of the (empty) list
	w := makeWorld(set, idX, idY)
	w.P = idP
	certs := []struct {
		name string
		toks []Tok
	}{
		{"no-signature", nil},
		{"one-valid-signature", []Tok{{KValid, 1}}},
		{"four-valid-signatures", []Tok{{KValid, 0}, {KValid, 1}, {KValid, 2}, {KValid, 3}}},
		{"damaged-signature", []Tok{{KCorrupt, 1}}},
	}
	lists := []struct {
		name string
		v    []string
	}{{"nil", nil}, {"empty-non-nil", []string{}}, {"empty-copy-of-nil", append([]string{}, []string(nil)...)}}
	for ci, c := range certs {
		for _, l := range lists {
			rng := rand.New(rand.NewSource(caseSeed(r.Seed, 9500, ci)))
			signs, desc := m.Build(w, c.toks, false, rng)
			proposal := &bft.QuorumCert{
				VoteInfo:  &bft.VoteInfo{ProposalId: idP, ProposalView: 6, ParentId: idX, ParentView: 5},
				SignInfos: []*bftpb.QuorumCertSign{{Address: m.ids[0].Address, PublicKey: m.ids[0].PubJSON, Sign: m.Sig(0, idP, 0)}},
			}
			justify := &bft.QuorumCert{VoteInfo: &bft.VoteInfo{ProposalId: idX, ProposalView: 5, ParentId: idR, ParentView: 4}, SignInfos: signs}
			var err error
			pan := ""
			func() {
				defer func() {
					if p := recover(); p != nil {
						pan = fmt.Sprint(p)
					}
				}()
				err = rules.CheckProposal(proposal, justify, l.v)
			}()
			r.Case(fmt.Sprintf("empty-set|CheckProposal|%s|%s", l.name, c.name), true)
			r.Count("emptyset.probes", 1)
			wit := map[string]interface{}{"via": "CheckProposal", "validators": l.name, "certificate": c.name, "entries": desc, "accepted": err == nil && pan == "", "error": fmt.Sprint(err)}
			switch {
			case pan != "":
				r.Violation("qc|empty-validator-list|panic", "CheckProposal panicked on a "+l.name+" validator list: "+pan, wit)
			case err == nil && l.v == nil:
				r.Violation("qc|nil-validator-list-makes-certificate-acceptable",
					fmt.Sprintf("CheckProposal accepted a certificate (%s) for a nil validator list", c.name), wit)
			case err == nil:
				r.Count("emptyset.accepted", 1)
				r.Violation("qc|empty-validator-list-makes-certificate-acceptable",
					fmt.Sprintf("CheckProposal accepted a certificate (%s) for an EMPTY, non-nil validator list (n = 0): nil is refused (EmptyValidators), an empty list passes and CalVotesThreshold(0, 0) is true, so any certificate is acceptable when a validator-set lookup yields an empty list", c.name), wit)
			default:
				r.Count("emptyset.refused", 1)
			}
			// CheckVote with the same list: no signer can be a member of it
			if len(signs) > 0 {
				qc := &bft.QuorumCert{VoteInfo: &bft.VoteInfo{ProposalId: idX, ProposalView: 5, ParentId: idR, ParentView: 4},
					LedgerCommitInfo: &bft.LedgerCommitInfo{VoteInfoHash: idX}, SignInfos: signs}
				var verr error
				func() {
					defer func() {
						if p := recover(); p != nil {
							verr = fmt.Errorf("panic: %v", p)
						}
					}()
					verr = rules.CheckVote(qc, "verif", l.v)
				}()
				r.Count("emptyset.probes", 1)
				if verr == nil {
					r.Violation("qc|CheckVote|accepted|empty-validator-list", fmt.Sprintf("CheckVote accepted a vote (%s) for a %s validator list", c.name, l.name), wit)
				}
			}
		}
	}
	// the smr proposal handler with an election that answers with an empty list for the certified view
	for _, l := range lists {
		me := m.ids[0]
		log := sn.NewCapLogger()
		g := &bft.ProposalNode{In: &bft.QuorumCert{VoteInfo: &bft.VoteInfo{ProposalId: idR, ProposalView: 0}, LedgerCommitInfo: &bft.LedgerCommitInfo{CommitStateId: idR}}}
		x := &bft.ProposalNode{In: &bft.QuorumCert{VoteInfo: &bft.VoteInfo{ProposalId: idX, ProposalView: 1, ParentId: idR, ParentView: 0}}}
		g.Sons = append(g.Sons, x)
		tree := &bft.QCPendingTree{Genesis: g, Root: g, HighQC: g, CommitQC: g, Log: log, OrphanList: list.New(), OrphanMap: map[string]bool{}}
		cc := cCrypto.NewCBFTCrypto(m.AddressOf(me), sn.Crypto())
		rules := &bft.DefaultSaftyRules{Crypto: cc, QcTree: tree, Log: log}
		el := &selection{vals: l.v, leader: me.Address}
		smr := bft.NewSmr(collBc, me.Address, log, &snet{account: me.Address}, cc, &bft.DefaultPaceMaker{CurrentView: 0}, rules, el, tree)
		jq, _ := json.Marshal(&bft.QuorumCert{VoteInfo: &bft.VoteInfo{ProposalId: idX, ProposalView: 1, ParentId: idR, ParentView: 0}}) // no signature
		pm := &bftpb.ProposalMsg{ProposalView: 2, ProposalId: idP, Timestamp: 2, JustifyQC: jq}
		pcc := cCrypto.NewCBFTCrypto(m.AddressOf(m.ids[1]), sn.Crypto())
		if _, err := pcc.SignProposalMsg(pm); err != nil {
			continue
		}
		pan := ""
		func() {
			defer func() {
				if p := recover(); p != nil {
					pan = fmt.Sprint(p)
				}
			}()
			smr.VerifHandleProposal(p2p.NewMessage(protos.XuperMessage_CHAINED_BFT_NEW_PROPOSAL_MSG, pm, p2p.WithBCName(collBc)))
		}()
		r.Case("empty-set|proposal-handler|"+l.name, true)
		r.Count("emptyset.probes", 1)
		taken := tree.DFSQueryNode(idP) != nil
		wit := map[string]interface{}{"via": "smr proposal handler", "validators_of_certified_view": l.name, "certificate": "no-signature", "proposal_taken": taken}
		switch {
		case pan != "":
			r.Violation("qc|empty-validator-list|panic", "the proposal handler panicked with a "+l.name+" validator list: "+pan, wit)
		case taken && l.v == nil:
			r.Violation("qc|nil-validator-list-makes-certificate-acceptable", "the proposal handler took a proposal whose certificate carries no signature while the election has no validator list (nil) for the certified view", wit)
		case taken:
			r.Count("emptyset.accepted", 1)
			r.Violation("qc|empty-validator-list-makes-certificate-acceptable",
				"the proposal handler took a proposal whose certificate carries no signature while the election answers with an EMPTY, non-nil validator list for the certified view", wit)
		default:
			r.Count("emptyset.refused", 1)
		}
	}
}

// ---- the collector while the validator-set lookup fails ---------------------------------------------
//
// The smr asks its election for the validator set of the voted view twice per vote message (once to
// check the voter, once to compute the threshold). tdpos / xpoa GetValidators answer nil when a
// ledger read behind the lookup fails. Whatever call fails: fewer than the threshold of distinct
// valid votes never certify the proposal - a set that can not be read is not a set of size 0.

type flakySelection struct {
	vals   []string
	leader string
	calls  int
	failAt int      // number of the GetValidators call that answers like a failed lookup (0 = none)
	sticky bool     // ... and every later call
	answer []string // what a failed lookup answers: nil (tdpos / xpoa) or an empty list
	hits   int
}

func (e *flakySelection) GetLeader(round int64) string { return e.leader }
func (e *flakySelection) GetValidators(round int64) []string {
	e.calls++
	if e.failAt > 0 && (e.calls == e.failAt || e.sticky && e.calls > e.failAt) {
		e.hits++
		return e.answer
	}
	return e.vals
}
func (e *flakySelection) GetIntAddress(string) string { return "" }

func collectorLookupFaultPart(r *ev.Run, m *Material) {
	idx := 0
	for _, n := range []int{4, 5, 7, 10} {
		T := Threshold(n)
		for D := 1; D < T; D++ {
			if D < T-2 && D != 1 {
				continue
			}
			for _, answer := range []string{"nil", "empty"} {
				for k := 1; k <= 2*D; k++ {
					for _, sticky := range []bool{false, true} {
						rng := rand.New(rand.NewSource(caseSeed(r.Seed, 9550, idx)))
						idx++
						set := rng.Perm(sn.NumKeys)[:n]
						col := rng.Intn(n)
						var voters []int
						for _, x := range rng.Perm(n) {
							if x != col && len(voters) < D {
								voters = append(voters, x)
							}
						}
						w := makeWorld(set, idX, idY)
						me := m.ids[set[col]]
						log := sn.NewCapLogger()
						root := &bft.ProposalNode{In: &bft.QuorumCert{VoteInfo: &bft.VoteInfo{ProposalId: idR, ProposalView: 0}, LedgerCommitInfo: &bft.LedgerCommitInfo{CommitStateId: idR}}}
						tree := &bft.QCPendingTree{Genesis: root, Root: root, HighQC: root, CommitQC: root, Log: log, OrphanList: list.New(), OrphanMap: map[string]bool{}}
						cc := cCrypto.NewCBFTCrypto(m.AddressOf(me), sn.Crypto())
						rules := &bft.DefaultSaftyRules{Crypto: cc, QcTree: tree, Log: log}
						el := &flakySelection{vals: w.Addrs(m), leader: me.Address}
						if answer == "empty" {
							el.answer = []string{}
						}
						smr := bft.NewSmr(collBc, me.Address, log, &snet{account: me.Address}, cc, &bft.DefaultPaceMaker{CurrentView: 0}, rules, el, tree)
						jq, _ := json.Marshal(&bft.QuorumCert{VoteInfo: &bft.VoteInfo{ProposalId: idR, ProposalView: 0}})
						pm := &bftpb.ProposalMsg{ProposalView: 1, ProposalId: idX, Timestamp: 1, JustifyQC: jq}
						pcc := cCrypto.NewCBFTCrypto(m.AddressOf(m.ids[set[(col+1)%n]]), sn.Crypto())
						if _, err := pcc.SignProposalMsg(pm); err != nil {
							continue
						}
						pan := ""
						certifiedAfter := -1
						var errs []string
						func() {
							defer func() {
								if p := recover(); p != nil {
									pan = fmt.Sprint(p)
								}
							}()
							smr.VerifHandleProposal(p2p.NewMessage(protos.XuperMessage_CHAINED_BFT_NEW_PROPOSAL_MSG, pm, p2p.WithBCName(collBc)))
							vi, _ := json.Marshal(&bft.VoteInfo{ProposalId: idX, ProposalView: 1, ParentId: idR, ParentView: 0})
							li, _ := json.Marshal(&bft.LedgerCommitInfo{VoteInfoHash: idX})
							// the lookups of the vote handler are the ones that fail (the proposal was handled with healthy storage)
							el.calls, el.failAt, el.sticky = 0, k, sticky
							for i, x := range voters {
								signs, _ := m.Build(w, []Tok{{KValid, x}}, false, rng)
								vm := &bftpb.VoteMsg{VoteInfo: vi, LedgerCommitInfo: li, Signature: signs}
								err := smr.VerifHandleVote(p2p.NewMessage(protos.XuperMessage_CHAINED_BFT_VOTE_MSG, vm, p2p.WithBCName(collBc)))
								errs = append(errs, fmt.Sprint(err))
								if certifiedAfter < 0 && string(smr.GetHighQC().GetProposalId()) == string(idX) {
									certifiedAfter = i
								}
							}
						}()
						mode := "single"
						if sticky {
							mode = "from-this-call-on"
						}
						r.Case(fmt.Sprintf("collector|lookup-fault|n=%d|votes=%d|call=%d|%s|%s", n, D, k, answer, mode), true)
						r.Count("collector.lookup-fault.streams", 1)
						if el.hits > 0 {
							r.Count("collector.lookup-fault.hit", 1)
						}
						wit := map[string]interface{}{"n": n, "threshold": T, "distinct_valid_votes": D, "failed_lookup_call": k, "mode": mode, "failed_lookup_answers": answer,
							"handler_errors": errs, "certified_after_vote": certifiedAfter, "lookups": el.calls}
						switch {
						case pan != "":
							r.Count("collector.lookup-fault.panic", 1)
							r.Extra("collector_lookup_fault_panic", map[string]interface{}{"note": "panic of the vote handler while the validator lookup fails (counted, not judged)", "panic": pan, "witness": wit})
						case certifiedAfter >= 0:
							r.Violation("qc|collector|quorum-declared-while-validator-lookup-fails",
								fmt.Sprintf("n=%d (threshold %d besides the collector): with only %d distinct valid vote(s) delivered the collector treated the proposal as certified after vote %d, because GetValidators call %d of the vote handler (%s) answered like a failed lookup (%s) and the threshold was computed for a set of size 0",
									n, T, D, certifiedAfter+1, k, mode, answer), wit)
							return
						default:
							r.Count("collector.lookup-fault.not-certified", 1)
						}
					}
				}
			}
		}
	}
}
