package main

// History differential: the verdict on a certificate is a function of the certificate and of the
// validator set in force - not of what the judging instance processed before.
//
// Part A (smr level). One long-lived real Smr (NewSmr: real DefaultSaftyRules, DefaultPaceMaker,
// QCPendingTree) lives through a seeded history of the things a node does between two certificate
// checks:
//
//	proposal-handled              a signed proposal message with an honest justify (handler shim)
//	justify-merged-first          a confirmed block's justify stored by UpdateJustifyQcStatus (nothing stored yet for that id)
//	justify-merged-into-stored    the same with votes already stored for that id: votes the node collected as next
//	                              leader, a sibling block (a block and its redo after a roll-back) carrying the
//	                              same justify, votes re-loaded after a restart (LoadVotes)
//	block-confirmed               UpdateQcStatus with the block's proposal node
//	votes-collected               vote messages for the newest proposal (handler shim)
//	votes-reloaded                LoadVotes right after construction (what tdpos / xpoa do on restart)
//
// After every step one to three certificates over a stored proposal are checked by the long-lived
// instance (CheckProposal; sometimes a whole proposal message whose justify is the certificate):
// the multiset classes of the direct part, UNDER-signed ones first and most often. Every verdict
// must equal the vote-counting model's (must-reject / must-accept) and the verdict a FRESH
// DefaultSaftyRules gives on the same call.
//
// Part B (tdpos / xpoa). A long-lived consensus instance judges candidate blocks (CheckMinerMatch)
// before and after it confirmed blocks (ProcessConfirmBlock of an accepted block and of sibling
// blocks carrying the same justify - a roll-back and redo): the verdict after must be the model's
// and the one the instance gave before.

import (
	"container/list"
	"encoding/json"
	"fmt"
	"math/rand"
	"os"

	bft "github.com/xuperchain/xupercore/kernel/consensus/base/driver/chained-bft"
	cCrypto "github.com/xuperchain/xupercore/kernel/consensus/base/driver/chained-bft/crypto"
	bftpb "github.com/xuperchain/xupercore/kernel/consensus/base/driver/chained-bft/pb"
	"github.com/xuperchain/xupercore/kernel/network/p2p"
	"github.com/xuperchain/xupercore/protos"

	"verif/ev"
	sn "verif/simnode"
)

// Proposal ids of the histories. The number comes FIRST: the ECDSA helper signs the id itself as the
// digest, of which only the first 32 bytes matter - ids that differ only behind byte 32 would all
// be certified by the same signature (real block ids are 32-byte hashes).
func hid(v int64) []byte { return []byte(fmt.Sprintf("%02d-verif-c14-history-proposal-id", v)) }
func hsib(v int64, k int) []byte {
	return []byte(fmt.Sprintf("%02d-redo-%d-verif-c14-history-proposal-id", v, k))
}

type history struct {
	r      *ev.Run
	m      *Material
	rng    *rand.Rand
	trial  int
	n, T   int
	set    []int
	addrs  []string
	me     int // position of the long-lived node in set
	smr    *bft.Smr
	rules  *bft.DefaultSaftyRules
	tree   *bft.QCPendingTree
	top    int64           // newest view the node knows
	known  map[int64]bool  // views whose proposal came as a message (votes can be collected for them)
	votes  map[string]bool // ids with a non-empty stored vote list (model of the vote store's keys)
	certs  map[int64][]Tok // the honest certificate of each view (what blocks carry as justify)
	lastOp string
	ops    []string
	dead   bool // a violation was reported: the history is abandoned
	evil   int
}

func (h *history) op(kind, detail string) {
	h.lastOp = kind
	h.ops = append(h.ops, kind+" "+detail)
	h.r.Count("history.op."+kind, 1)
}

func (h *history) world(v int64) *World {
	other := hid(v + 40)
	if v > 0 {
		other = hid(v - 1) // "another id" = the proposal before: what stored votes of an earlier certificate are over
	}
	w := makeWorld(h.set, hid(v), other)
	return w
}

// honestCert: T..n distinct members (sometimes plus a neutral non-member entry).
func (h *history) honestCert(v int64) []Tok {
	k := h.T + h.rng.Intn(h.n-h.T+1)
	if k < 1 {
		k = 1
	}
	var t []Tok
	for _, x := range h.rng.Perm(h.n)[:k] {
		t = append(t, Tok{KValid, x})
	}
	if h.rng.Intn(5) == 0 {
		t = append(t, Tok{KNonMem, h.rng.Intn(4)})
	}
	return t
}

func (h *history) qc(v int64, toks []Tok, fresh bool, commit bool) (*bft.QuorumCert, []string) {
	w := h.world(v)
	signs, desc := h.m.Build(w, toks, fresh, h.rng)
	q := &bft.QuorumCert{VoteInfo: &bft.VoteInfo{ProposalId: hid(v), ProposalView: v}, SignInfos: signs}
	if v > 0 {
		q.VoteInfo.ParentId, q.VoteInfo.ParentView = hid(v-1), v-1
	}
	if commit {
		q.LedgerCommitInfo = &bft.LedgerCommitInfo{CommitStateId: hid(0)}
	}
	return q, desc
}

func (h *history) guard(what string, f func()) {
	defer func() {
		if p := recover(); p != nil {
			h.r.Violation("qc|history|panic", fmt.Sprintf("%s panicked on a long-lived instance: %v", what, p), map[string]interface{}{"trial": h.trial, "history": h.ops})
			h.dead = true
		}
	}()
	f()
}

func (h *history) deliver(view int64, id []byte, justify *bft.QuorumCert, proposer int) {
	jb, _ := json.Marshal(justify)
	pm := &bftpb.ProposalMsg{ProposalView: view, ProposalId: id, Timestamp: view, JustifyQC: jb}
	if _, err := h.m.cb[proposer].SignProposalMsg(pm); err != nil {
		return
	}
	h.guard("the proposal handler", func() {
		h.smr.VerifHandleProposal(p2p.NewMessage(protos.XuperMessage_CHAINED_BFT_NEW_PROPOSAL_MSG, pm, p2p.WithBCName(collBc)))
	})
}

func (h *history) merge(v int64, toks []Tok, why string) {
	q, _ := h.qc(v, toks, false, false)
	kind := "justify-merged-first"
	if h.votes[string(hid(v))] {
		kind = "justify-merged-into-stored-votes"
	}
	h.guard("UpdateJustifyQcStatus", func() { h.smr.UpdateJustifyQcStatus(q) })
	if len(q.SignInfos) > 0 {
		h.votes[string(hid(v))] = true
	}
	h.op(kind, fmt.Sprintf("view %d %s %s", v, shapeOf(toks), why))
}

func (h *history) confirm(v int64, id []byte) {
	node := &bft.ProposalNode{In: &bft.QuorumCert{VoteInfo: &bft.VoteInfo{ProposalId: id, ProposalView: v, ParentId: hid(v - 1), ParentView: v - 1}}}
	h.guard("UpdateQcStatus", func() { h.smr.UpdateQcStatus(node) })
	h.op("block-confirmed", fmt.Sprintf("view %d", v))
}

func (h *history) collect(v int64) {
	vi, _ := json.Marshal(&bft.VoteInfo{ProposalId: hid(v), ProposalView: v, ParentId: hid(v - 1), ParentView: v - 1})
	li, _ := json.Marshal(&bft.LedgerCommitInfo{VoteInfoHash: hid(v)})
	k := 1 + h.rng.Intn(h.T+1)
	if k > h.n {
		k = h.n
	}
	w := h.world(v)
	got := 0
	for _, x := range h.rng.Perm(h.n)[:k] {
		signs, _ := h.m.Build(w, []Tok{{KValid, x}}, false, h.rng)
		vm := &bftpb.VoteMsg{VoteInfo: vi, LedgerCommitInfo: li, Signature: signs}
		var err error
		h.guard("the vote handler", func() {
			err = h.smr.VerifHandleVote(p2p.NewMessage(protos.XuperMessage_CHAINED_BFT_VOTE_MSG, vm, p2p.WithBCName(collBc)))
		})
		if err == nil {
			got++
			h.votes[string(hid(v))] = true
		}
	}
	if got > 0 {
		h.r.Count("history.votes-stored", got)
	}
	h.op("votes-collected", fmt.Sprintf("view %d: %d of %d vote messages taken", v, got, k))
}

// certClass builds one certificate of the named family relative to the validator set.
func (h *history) certClass(under bool, col int) (string, []Tok, bool) {
	rng, n, T := h.rng, h.n, h.T
	valid := func(xs []int) []Tok {
		var t []Tok
		for _, x := range xs {
			t = append(t, Tok{KValid, x})
		}
		return t
	}
	var others []int // members besides the collector, random order
	for _, x := range rng.Perm(n) {
		if x != col {
			others = append(others, x)
		}
	}
	if under && T >= 1 {
		few := rng.Perm(n)[:T-1]
		in := map[int]bool{}
		for _, x := range few {
			in[x] = true
		}
		rest := func(kind string) []Tok {
			t := valid(few)
			for x := 0; x < n; x++ {
				if !in[x] {
					t = append(t, Tok{kind, x})
				}
			}
			return t
		}
		switch c := rng.Intn(9); {
		case c <= 1:
			return "no-signature", nil, false
		case c == 2:
			return "threshold-1", valid(few), false
		case c == 3 && T >= 2:
			t := valid(few)
			for k := 0; k < n; k++ {
				t = append(t, Tok{KValid, few[k%len(few)]})
			}
			return "threshold-1+repeats", t, rng.Intn(2) == 0
		case c == 4:
			t := valid(few)
			for k := 0; k < n-T+2; k++ {
				t = append(t, Tok{KNonMem, k})
			}
			return "threshold-1+non-members", t, false
		case c == 5:
			return "threshold-1+wrong-id", rest(KWrongID), false
		case c == 6:
			return "threshold-1+damaged", rest(KCorrupt), false
		case c == 7 && rng.Intn(2) == 0:
			return "threshold-1+mismatch", rest(KMismatch), false
		case c == 7:
			t := valid(few)
			for k := 0; k < n-T+2; k++ {
				t = append(t, Tok{KForeign, k})
			}
			return "threshold-1+member-key-under-foreign-address", t, false
		}
		var t []Tok
		for k := 0; k <= T; k++ {
			t = append(t, Tok{KNonMem, k})
		}
		return "non-members-only", t, false
	}
	switch c := rng.Intn(4); {
	case c == 3 && col >= 0 && T >= 1 && len(others) >= T-1:
		// the collector's own signature is needed to reach the threshold: the statement allows either
		// answer, but it must be the same answer on every instance
		return "threshold-including-collector", append(valid(others[:T-1]), Tok{KValid, col}), false
	case c == 0 && len(others) >= T:
		return "threshold-without-collector", valid(others[:T]), false
	case c == 1 && len(others) >= T && T >= 1:
		t := valid(others[:T])
		for k := 0; k < 3; k++ {
			t = append(t, Tok{KNonMem, rng.Intn(4)}, Tok{KValid, others[k%T]})
		}
		return "threshold+neutral-padding", t, rng.Intn(2) == 0
	}
	return "all-members", valid(seq(n)), false
}

// certifiable: stored proposals (view >= 1) a certificate can name, newest first.
func (h *history) certifiable() []int64 {
	var out []int64
	for v := h.top; v >= 1 && v > h.top-4; v-- {
		if h.tree.DFSQueryNode(hid(v)) != nil {
			out = append(out, v)
		}
	}
	return out
}

// freshRules: a DefaultSaftyRules that has never processed anything, over a pending tree that holds
// the certified proposal.
func (h *history) freshRules(c int64) *bft.DefaultSaftyRules {
	log := sn.NewCapLogger()
	root := &bft.ProposalNode{In: &bft.QuorumCert{VoteInfo: &bft.VoteInfo{ProposalId: hid(c - 1), ProposalView: c - 1}}}
	root.Sons = append(root.Sons, &bft.ProposalNode{In: &bft.QuorumCert{VoteInfo: &bft.VoteInfo{ProposalId: hid(c), ProposalView: c, ParentId: hid(c - 1), ParentView: c - 1}}})
	tree := &bft.QCPendingTree{Genesis: root, Root: root, HighQC: root, CommitQC: root, Log: log, OrphanList: list.New(), OrphanMap: map[string]bool{}}
	return &bft.DefaultSaftyRules{Crypto: cCrypto.NewCBFTCrypto(h.m.AddressOf(h.m.ids[h.set[h.me]]), sn.Crypto()), QcTree: tree, Log: log}
}

// checks runs k certificate checks on the long-lived instance; the first one directly follows the
// step that was just made.
func (h *history) checks(k int) {
	for j := 0; j < k && !h.dead; j++ {
		cs := h.certifiable()
		if len(cs) == 0 {
			return
		}
		c := cs[0]
		if len(cs) > 1 && h.rng.Intn(3) == 0 {
			c = cs[1+h.rng.Intn(len(cs)-1)]
		}
		under := h.rng.Intn(10) < 7
		if j == 0 {
			under = h.rng.Intn(10) < 8
		}
		col := h.rng.Intn(h.n+1) - 1 // -1: the carrying proposal is signed by an outsider
		if col == h.me {
			col = -1
		}
		class, toks, fresh := h.certClass(under, col)
		after := h.lastOp
		if under && h.rng.Intn(4) == 0 && col >= 0 {
			h.weakProposal(c, class, toks, fresh, col, after)
			continue
		}
		h.oneCheck(c, class, toks, fresh, col, after)
	}
}

func (h *history) oneCheck(c int64, class string, toks []Tok, fresh bool, col int, after string) {
	r, m := h.r, h.m
	colU := makeWorld(h.set, nil, nil).Outsiders[0]
	if col >= 0 {
		colU = h.set[col]
	}
	pid := []byte(fmt.Sprintf("%02d-carrying-verif-c14-history-proposal", h.top+1))
	w := h.world(c)
	w.P = pid
	signs, desc := m.Build(w, toks, fresh, h.rng)
	proposal := &bft.QuorumCert{
		VoteInfo:  &bft.VoteInfo{ProposalId: pid, ProposalView: h.top + 1, ParentId: hid(c), ParentView: c},
		SignInfos: []*bftpb.QuorumCertSign{{Address: m.ids[colU].Address, PublicKey: m.ids[colU].PubJSON, Sign: m.Sig(colU, pid, 0)}},
	}
	justify := &bft.QuorumCert{VoteInfo: &bft.VoteInfo{ProposalId: hid(c), ProposalView: c, ParentId: hid(c - 1), ParentView: c - 1}, SignInfos: signs}
	run := func(rules *bft.DefaultSaftyRules) (res caseResult) {
		defer func() {
			if p := recover(); p != nil {
				res.Panic = fmt.Sprint(p)
			}
		}()
		err := rules.CheckProposal(proposal, justify, h.addrs)
		res.Accepted = err == nil
		if err != nil {
			res.Err = err.Error()
		}
		return
	}
	long := run(h.rules) // the long-lived instance first: it directly follows the step made before
	fr := run(h.freshRules(c))
	v := Judge(h.n, toks, col)
	h.ops = append(h.ops, fmt.Sprintf("certificate-check view %d %s [%s] -> accepted=%v", c, class, shapeOf(toks), long.Accepted))
	h.lastOp = "certificate-check"
	r.Case(fmt.Sprintf("history|n=%d|after=%s|%s|col=%v", h.n, after, class, col >= 0), true)
	r.Count("history.checks", 1)
	r.Count("history.checks.after."+after, 1)
	r.Count("history.class."+class, 1)
	if long.Accepted {
		r.Count("history.accepted", 1)
	} else {
		r.Count("history.refused", 1)
	}
	switch {
	case v.MustReject:
		r.Count("history.oracle.must-reject", 1)
		if after == "justify-merged-into-stored-votes" {
			r.Count("history.insufficient-certificate-right-after-merge-into-stored-votes", 1)
		}
	case v.MustAccept:
		r.Count("history.oracle.must-accept", 1)
	default:
		r.Count("history.oracle.either", 1)
	}
	wit := map[string]interface{}{"trial": h.trial, "n": h.n, "validators": h.addrs, "long_lived_node": h.addrs[h.me], "history": h.ops, "certified_view": c,
		"certificate_class": class, "entries": desc, "threshold": v.T, "distinct_valid_members": v.DIncl, "without_collector": v.DExcl,
		"long_lived": map[string]interface{}{"accepted": long.Accepted, "error": long.Err}, "fresh": map[string]interface{}{"accepted": fr.Accepted, "error": fr.Err}}
	switch {
	case long.Panic != "":
		r.Violation("qc|history|panic", "CheckProposal panicked on a long-lived instance: "+long.Panic, wit)
		h.dead = true
	case v.MustReject && long.Accepted && !fr.Accepted:
		r.Violation("qc|history|insufficient-certificate-accepted-by-long-lived-instance-only|after-"+after,
			fmt.Sprintf("n=%d (threshold %d): after '%s' the long-lived instance ACCEPTED a certificate of class %s with %d distinct valid member signature(s) over the certified id; a fresh instance refuses it (%s). History: %v",
				h.n, v.T, after, class, v.DIncl, fr.Err, h.ops), wit)
		h.dead = true
	case v.MustReject && long.Accepted:
		r.Violation(WrongAcceptSignature(v, toks), fmt.Sprintf("history part: CheckProposal (long-lived and fresh) accepted a certificate with %d distinct valid member signature(s) (threshold %d, n=%d): entries %v",
			v.DIncl, v.T, h.n, desc), wit)
		h.dead = true
	case v.MustAccept && !long.Accepted && fr.Accepted:
		r.Violation("qc|history|sufficient-certificate-refused-by-long-lived-instance-only|after-"+after,
			fmt.Sprintf("n=%d (threshold %d): after '%s' the long-lived instance refused (%s) a certificate of class %s with %d distinct valid member signatures besides the collector; a fresh instance accepts it. History: %v",
				h.n, v.T, after, long.Err, class, v.DExcl, h.ops), wit)
		h.dead = true
	case v.MustAccept && !long.Accepted:
		sig := "qc|sufficient-certificate-refused"
		if v.Padded {
			sig = "qc|sufficient-certificate-with-neutral-padding-refused"
		}
		r.Violation(sig, fmt.Sprintf("history part: CheckProposal (long-lived and fresh) refused (%s) a certificate with %d distinct valid member signatures besides the collector (threshold %d, n=%d): entries %v",
			long.Err, v.DExcl, v.T, h.n, desc), wit)
		h.dead = true
	case long.Accepted != fr.Accepted:
		r.Violation("qc|history|verdict-differs-from-fresh-instance|after-"+after,
			fmt.Sprintf("n=%d: after '%s' the long-lived instance answers accepted=%v (%s), a fresh one accepted=%v (%s) for the same certificate (class %s, entries %v)",
				h.n, after, long.Accepted, long.Err, fr.Accepted, fr.Err, class, desc), wit)
		h.dead = true
	}
}

// weakProposal: the insufficient certificate arrives as the justify of a signed proposal message.
func (h *history) weakProposal(c int64, class string, toks []Tok, fresh bool, col int, after string) {
	v := Judge(h.n, toks, col)
	if !v.MustReject {
		return
	}
	h.evil++
	id := []byte(fmt.Sprintf("%03d-weak-verif-c14-history-proposal", h.evil))
	w := h.world(c)
	w.P = id
	signs, desc := h.m.Build(w, toks, fresh, h.rng)
	justify := &bft.QuorumCert{VoteInfo: &bft.VoteInfo{ProposalId: hid(c), ProposalView: c, ParentId: hid(c - 1), ParentView: c - 1}, SignInfos: signs}
	if h.rng.Intn(2) == 0 {
		justify.LedgerCommitInfo = &bft.LedgerCommitInfo{CommitStateId: hid(0)}
	}
	highBefore := string(h.tree.GetHighQC().In.GetProposalId())
	h.deliver(h.top+1, id, justify, h.set[col])
	if h.dead {
		return
	}
	stored := h.tree.DFSQueryNode(id) != nil
	moved := string(h.tree.GetHighQC().In.GetProposalId()) != highBefore
	h.ops = append(h.ops, fmt.Sprintf("weak-proposal justify over view %d %s [%s] -> taken=%v", c, class, shapeOf(toks), stored || moved))
	h.lastOp = "certificate-check"
	h.r.Case(fmt.Sprintf("history|proposal-message|n=%d|after=%s|%s", h.n, after, class), true)
	h.r.Count("history.checks", 1)
	h.r.Count("history.checks.after."+after, 1)
	h.r.Count("history.weak-proposal-messages", 1)
	h.r.Count("history.oracle.must-reject", 1)
	if after == "justify-merged-into-stored-votes" {
		h.r.Count("history.insufficient-certificate-right-after-merge-into-stored-votes", 1)
	}
	if stored || moved {
		h.r.Violation("qc|history|proposal-with-insufficient-certificate-taken-by-long-lived-instance|after-"+after,
			fmt.Sprintf("n=%d (threshold %d): after '%s' the long-lived node took a proposal (stored=%v, HighQC moved=%v) whose certificate over view %d is of class %s with %d distinct valid member signature(s). History: %v",
				h.n, v.T, after, stored, moved, c, class, v.DIncl, h.ops),
			map[string]interface{}{"trial": h.trial, "n": h.n, "validators": h.addrs, "history": h.ops, "certified_view": c, "certificate_class": class, "entries": desc,
				"threshold": v.T, "distinct_valid_members": v.DIncl})
		h.dead = true
	}
}

func historyPart(r *ev.Run, m *Material) {
	trials := r.N(36, 600)
	for t := 0; t < trials; t++ {
		runHistory(r, m, t)
	}
	fmt.Fprintf(os.Stderr, "c14: history: %d trials, %d certificate checks on long-lived instances\n", trials, r.Counter("history.checks"))
}

func runHistory(r *ev.Run, m *Material, t int) {
	rng := rand.New(rand.NewSource(caseSeed(r.Seed, 9600, t)))
	n := []int{3, 4, 4, 5, 5, 6, 7, 7, 10, 2}[rng.Intn(10)]
	h := &history{r: r, m: m, rng: rng, trial: t, n: n, T: Threshold(n), set: rng.Perm(sn.NumKeys)[:n], known: map[int64]bool{}, votes: map[string]bool{}, certs: map[int64][]Tok{}}
	h.me = rng.Intn(n)
	h.addrs = addrsOf(m, h.set)
	me := m.ids[h.set[h.me]]
	log := sn.NewCapLogger()
	root := &bft.ProposalNode{In: &bft.QuorumCert{VoteInfo: &bft.VoteInfo{ProposalId: hid(0), ProposalView: 0}, LedgerCommitInfo: &bft.LedgerCommitInfo{CommitStateId: hid(0)}}}
	h.tree = &bft.QCPendingTree{Genesis: root, Root: root, HighQC: root, CommitQC: root, Log: log, OrphanList: list.New(), OrphanMap: map[string]bool{}}
	cc := cCrypto.NewCBFTCrypto(m.AddressOf(me), sn.Crypto())
	h.rules = &bft.DefaultSaftyRules{Crypto: cc, QcTree: h.tree, Log: log}
	// the long-lived node is the next leader of every view: it is the one votes are sent to
	el := &selection{vals: h.addrs, leader: me.Address}
	h.smr = bft.NewSmr(collBc, me.Address, log, &snet{account: me.Address}, cc, &bft.DefaultPaceMaker{CurrentView: 0}, h.rules, el, h.tree)
	r.Count("history.trials", 1)
	r.Count(fmt.Sprintf("history.n=%d", n), 1)

	// restart: votes of the newest proposals are re-loaded from the blocks' justify right after construction
	reloaded := rng.Intn(3) == 0
	if reloaded {
		h.certs[1] = h.honestCert(1)
		q, _ := h.qc(1, h.certs[1], false, false)
		h.smr.LoadVotes(hid(1), q.SignInfos)
		h.votes[string(hid(1))] = true
		h.op("votes-reloaded", fmt.Sprintf("view 1 %s", shapeOf(h.certs[1])))
	}
	L := int64(5 + rng.Intn(5))
	for v := int64(1); v <= L && !h.dead; v++ {
		if h.certs[v] == nil {
			h.certs[v] = h.honestCert(v)
		}
		var others []int
		for i := range h.set {
			if i != h.me {
				others = append(others, i)
			}
		}
		proposer := h.set[others[rng.Intn(len(others))]]
		// --- the proposal of view v arrives as a message (or the node only sees the block)
		if rng.Intn(100) < 55 {
			j := &bft.QuorumCert{VoteInfo: &bft.VoteInfo{ProposalId: hid(0), ProposalView: 0}}
			if v > 1 {
				j, _ = h.qc(v-1, h.certs[v-1], false, true)
			}
			h.deliver(v, hid(v), j, proposer)
			if h.dead {
				return
			}
			if h.tree.DFSQueryNode(hid(v)) == nil {
				r.Count("history.setup-not-taken", 1)
				return
			}
			h.known[v] = true
			h.top = v
			h.op("proposal-handled", fmt.Sprintf("view %d", v))
			h.checks(1 + rng.Intn(2))
		}
		// --- block v is confirmed: its justify (certificate of v-1) is merged, its node stored
		if v > 1 {
			h.merge(v-1, h.certs[v-1], "(justify of block)")
			h.checks(1 + rng.Intn(3))
		}
		h.confirm(v, hid(v))
		if h.tree.DFSQueryNode(hid(v)) == nil {
			r.Count("history.setup-not-taken", 1)
			return
		}
		h.top = v
		if v > 1 && rng.Intn(100) < 45 {
			// a sibling block (the redo of block v after a roll-back) carries the same justify - or
			// the same certificate with another choice of signers
			toks := h.certs[v-1]
			why := "(sibling block, same justify)"
			if rng.Intn(10) < 3 {
				toks = h.honestCert(v - 1)
				why = "(sibling block, other signers)"
			}
			r.Count("history.sibling-blocks", 1)
			h.merge(v-1, toks, why)
			h.checks(1 + rng.Intn(3))
			h.confirm(v, hsib(v, 1))
		}
		// --- the node, next leader, collects votes for proposal v
		if h.known[v] && rng.Intn(100) < 60 {
			h.collect(v)
			h.checks(1 + rng.Intn(2))
		}
	}
}

// ---- Part B: tdpos / xpoa -----------------------------------------------------------------------

func bcsHistoryPart(r *ev.Run, m *Material) {
	universe := len(m.ids)
	trials := r.N(12, 160)
	for t := 0; t < trials; t++ {
		rng := rand.New(rand.NewSource(caseSeed(r.Seed, 9650, t)))
		cons := []string{"xpoa", "tdpos"}[t%2]
		n := 3 + rng.Intn(5)
		T := Threshold(n)
		A, B, Z := pickSets(rng, n, n, rng.Intn(T+1), universe)
		s, err := newScenario(m, cons, A, B, Z)
		if err != nil {
			r.Count("history.bcs.skipped", 1)
			continue
		}
		bcsHistory(r, s, rng, t)
		s.stop()
	}
}

func bcsHistory(r *ev.Run, s *scenario, rng *rand.Rand, t int) {
	cons, A, B := s.Cons, s.A, s.B
	n := len(A)
	T := Threshold(n)
	via := cons + ".CheckMinerMatch"
	w := makeWorld(A, nil, nil)
	valid := func(members []int) []Tok {
		var o []Tok
		for _, x := range members {
			o = append(o, Tok{KValid, x})
		}
		return o
	}
	ppos := 0
	col := posIn(A, B[ppos])
	var others []int
	for _, x := range rng.Perm(n) {
		if x != col {
			others = append(others, x)
		}
	}
	mk := func(tag string, toks []Tok, fresh bool, k int) *BcsCase {
		return &BcsCase{Cons: cons, Tag: tag, A: A, B: B, Z: s.Z, ProposerPos: ppos, Toks: toks, Fresh: fresh, ClaimedView: tipHeight, Seed: caseSeed(r.Seed, 9660+int64(t), k)}
	}
	var cands []*BcsCase
	cands = append(cands, mk("no-signature", nil, false, 0))
	if T >= 1 {
		few := rng.Perm(n)[:T-1]
		cands = append(cands, mk("threshold-1-of-A", valid(few), false, 1))
		var nm []Tok
		for k := 0; k <= T; k++ {
			nm = append(nm, Tok{KNonMem, k})
		}
		cands = append(cands, mk("non-members-only", nm, false, 2), mk("signed-by-current-set-B", toksSignedBy(w, A, B), false, 3))
		if T >= 2 {
			t := valid(few)
			for k := 0; k < n; k++ {
				t = append(t, Tok{KValid, few[k%len(few)]})
			}
			cands = append(cands, mk("threshold-1-plus-repeats", t, true, 4))
		}
	}
	if len(others) >= T {
		cands = append(cands, mk("exactly-threshold-of-A-without-proposer", valid(others[:T]), false, 5))
	}
	judge := func(c *BcsCase) caseResult {
		blk, desc := s.makeBlock(c, rand.New(rand.NewSource(c.Seed)), s.bid(tipHeight+1))
		res := s.check(blk)
		res.Built = desc
		return res
	}
	// verdicts of the instance before it has confirmed anything
	before := make([]caseResult, len(cands))
	for i, c := range cands {
		before[i] = judge(c)
	}
	// an honest block 13 is accepted and confirmed
	honest := mk("signed-by-all-of-A", valid(seq(n)), false, 9)
	hb, _ := s.makeBlock(honest, rand.New(rand.NewSource(honest.Seed)), s.bid(tipHeight+1))
	if res := s.check(hb); !res.Accepted {
		r.Count("history.bcs.honest-block-refused", 1)
		return
	}
	var ops []string
	confirm := func(blk *sblock, what string) bool {
		if p := s.confirm(blk); p != "" {
			r.Violation("qc|"+cons+"|panic", "ProcessConfirmBlock panicked: "+p, map[string]interface{}{"consensus": cons, "history": ops})
			return false
		}
		ops = append(ops, what)
		r.Count("history.bcs.blocks-confirmed", 1)
		return true
	}
	if !confirm(hb, "block 13 (certificate signed by all of A) accepted and confirmed") {
		return
	}
	r.Count("history.bcs.trials", 1)
	sib := 0
	for _, i := range rng.Perm(len(cands)) {
		c := cands[i]
		// the block is rolled back and re-made: the sibling carries the same justify (or the same
		// certificate signed by a quorum only)
		if rng.Intn(4) != 0 {
			sib++
			j := honest
			if rng.Intn(3) == 0 && len(others) >= T && T >= 1 {
				j = mk("exactly-threshold-of-A-without-proposer", valid(others[:T]), false, 10+sib)
			}
			sb, _ := s.makeBlock(j, rand.New(rand.NewSource(j.Seed)), []byte(fmt.Sprintf("redo-%02d-verif-c14-block-13-id-0123456789abcdef", sib)))
			if res := s.check(sb); !res.Accepted {
				r.Count("history.bcs.sibling-refused", 1)
			} else if !confirm(sb, fmt.Sprintf("block 13 rolled back, its redo #%d (justify: %s) accepted and confirmed", sib, j.Tag)) {
				return
			}
		}
		after := judge(c)
		v := Judge(n, c.Toks, col)
		r.Case(fmt.Sprintf("history|%s|n=%d|%s|siblings=%d", cons, n, c.Tag, sib), true)
		r.Count("history.bcs.candidates", 1)
		if v.MustReject {
			r.Count("history.bcs.insufficient-after-confirmed-blocks", 1)
		}
		if v.MustAccept {
			r.Count("history.bcs.sufficient-after-confirmed-blocks", 1)
		}
		wit := map[string]interface{}{"via": via, "case": c, "entries": after.Built, "set_in_force_for_certified_block(A)": s.addrs(A), "set_of_current_block(B)": s.addrs(B),
			"history": ops, "threshold": v.T, "distinct_valid_members_of_A": v.DIncl, "before": map[string]interface{}{"accepted": before[i].Accepted, "error": before[i].Err},
			"after": map[string]interface{}{"accepted": after.Accepted, "error": after.Err}}
		switch {
		case after.Panic != "":
			r.Violation("qc|"+via+"|panic", via+" panicked: "+after.Panic, wit)
			return
		case v.MustReject && after.Accepted && !before[i].Accepted:
			r.Violation("qc|"+cons+"|insufficient-certificate-accepted-after-confirmed-blocks",
				fmt.Sprintf("%s, n=%d (threshold %d): block 13 whose certificate for block 12 is '%s' (%d distinct valid signatures of the set in force) was refused by the instance (%s) and is ACCEPTED after it confirmed: %v",
					via, n, v.T, c.Tag, v.DIncl, before[i].Err, ops), wit)
			return
		case v.MustAccept && !after.Accepted && before[i].Accepted:
			r.Violation("qc|"+cons+"|sufficient-certificate-refused-after-confirmed-blocks",
				fmt.Sprintf("%s, n=%d (threshold %d): block 13 whose certificate for block 12 is '%s' was accepted by the instance and is refused (%s) after it confirmed: %v", via, n, v.T, c.Tag, after.Err, ops), wit)
			return
		case after.Accepted != before[i].Accepted:
			r.Violation("qc|"+cons+"|verdict-depends-on-blocks-confirmed-before",
				fmt.Sprintf("%s, n=%d: block 13 with certificate '%s': accepted=%v (%s) before, accepted=%v (%s) after the instance confirmed: %v",
					via, n, c.Tag, before[i].Accepted, before[i].Err, after.Accepted, after.Err, ops), wit)
			return
		}
	}
}

func historyFloors(r *ev.Run) {
	r.Floor("history.trials", 30)
	r.Floor("history.checks", 400)
	r.Floor("history.oracle.must-reject", 250)
	r.Floor("history.oracle.must-accept", 60)
	r.Floor("history.accepted", 60)
	r.Floor("history.refused", 250)
	r.Floor("history.op.justify-merged-into-stored-votes", 60)
	r.Floor("history.op.justify-merged-first", 30)
	r.Floor("history.op.votes-collected", 30)
	r.Floor("history.op.votes-reloaded", 4)
	r.Floor("history.sibling-blocks", 30)
	r.Floor("history.insufficient-certificate-right-after-merge-into-stored-votes", 40)
	r.Floor("history.weak-proposal-messages", 20)
	r.Floor("history.bcs.trials", 8)
	r.Floor("history.bcs.blocks-confirmed", 20)
	r.Floor("history.bcs.insufficient-after-confirmed-blocks", 25)
}
