// C07: transaction integrity and authorisation: nothing is spent or invoked unsigned.
package main

import (
	"fmt"
	"math/big"
	"math/rand"
	"os"
	"runtime"
	"runtime/debug"
	"strings"
	"sync"

	"github.com/golang/protobuf/proto"
	"github.com/xuperchain/xupercore/bcs/ledger/xledger/state/utxo/txhash"
	"github.com/xuperchain/xupercore/bcs/ledger/xledger/state/xmodel"
	pb "github.com/xuperchain/xupercore/bcs/ledger/xledger/xldgpb"
	"github.com/xuperchain/xupercore/protos"

	"verif/corpus"
	"verif/ev"
	"verif/gen"
	"verif/mutate"
	sn "verif/simnode"
)

// fields that the statement's digest / id explicitly do not cover
func uncovered(field string, version int32) bool {
	switch field {
	case "Txid", "Blockid", "ReceivedTimestamp", "ModifyBlock":
		return true
	case "HDInfo":
		return version < 2
	}
	return false
}

func isSigField(f string) bool {
	return f == "InitiatorSigns" || f == "AuthRequireSigns" || f == "XuperSign"
}

func verdict(n *sn.Node, x *pb.Transaction) (accepted bool, falseNil bool, desc string) {
	defer func() {
		if p := recover(); p != nil {
			accepted, falseNil, desc = false, false, "PANIC: "+fmt.Sprint(p)+"\n"+string(debug.Stack())
		}
	}()
	ok, err := n.State.VerifyTx(sn.CloneTx(x))
	if ok && err == nil {
		return true, false, "accepted"
	}
	if !ok && err == nil {
		return false, true, "(false, nil)"
	}
	return false, false, fmt.Sprint(err)
}

// blockVerdict: is a block carrying x accepted by the state machine of a twin of n? The block is
// well formed (award, merkle root over the claimed ids, proposer signature), stored by the ledger
// and then applied through Walk (the engine's sync path) or Play. withPool first admits the
// honest original to the twin's pool, so that x arrives under the id of a transaction the node
// already trusts.
func blockVerdict(n *sn.Node, honest, x *pb.Transaction, withPool, viaWalk bool, fillers ...*pb.Transaction) (accepted bool, skipped bool, desc string) {
	defer func() {
		if p := recover(); p != nil {
			accepted, skipped, desc = false, false, "PANIC: "+fmt.Sprint(p)+"\n"+string(debug.Stack())
		}
	}()
	tw, err := n.Twin()
	if err != nil {
		return false, true, err.Error()
	}
	defer tw.Drop()
	if withPool {
		if err := tw.State.DoTx(sn.CloneTx(honest)); err != nil {
			return false, true, "original not admitted: " + err.Error()
		}
	}
	// independent honest transactions after x: the block then splits into several dependency
	// groups, which Play verifies in parallel
	blk, err := tw.FormatBlock(tw.StateTip(), tw.LedgerHeight()+1, sn.K(0), 77777, append([]*pb.Transaction{x}, fillers...), true)
	if err != nil {
		return false, true, err.Error()
	}
	if st := tw.Confirm(blk); !st.Succ {
		return false, false, "ledger refused"
	}
	if viaWalk {
		err = tw.Walk(blk.Blockid, false)
	} else {
		err = tw.State.Play(blk.Blockid)
	}
	return err == nil, false, fmt.Sprint(err)
}

// canon: the covered content of a transaction (what the signing digest must determine)
func canon(x *pb.Transaction) string {
	c := sn.CloneTx(x)
	c.Txid, c.Blockid, c.ReceivedTimestamp, c.ModifyBlock = nil, nil, 0, nil
	c.InitiatorSigns, c.AuthRequireSigns, c.XuperSign = nil, nil, nil
	if c.Version < 2 {
		c.HDInfo = nil
	}
	b, _ := proto.Marshal(c)
	return string(b)
}

func main() {
	r := ev.Start("C07", "exploration",
		"corpus of ACCEPTED transactions (v1/v2/v3 transfers, several signers, aggregated XuperSign, account initiator, account-owned input, contract call with gas, contract call + transfer + fee, "+
			"contract-originated transfer) on a node with a confirmed multi-key account and contract funds; every single-field mutant reachable by walking the message schema (scalars, bytes/"+
			"strings: flips / truncation / extension / emptying, repeated: drop / duplicate / swap / append, maps, nested nil/fresh, boundary shifts between adjacent variable-length fields) is "+
			"verified twice: id left alone and id recomputed -> must be rejected unless the field is in the explicit uncovered set; signature attacks (swap, replay from another transaction, "+
			"foreign key with and without matching public key, dropping a needed signer and re-signing); digests and ids of all variants are grouped: two different covered contents must not "+
			"share a digest; VerifyTx must never answer (false, nil); a case = one (item, mutant, mode); distinct by item+path+kind+mode; non-trivial = mutant of a covered field")
	defer sn.CleanupScratch()
	w, err := corpus.Build(sn.DefaultConfig())
	if err != nil {
		r.Inconclusive("cannot build corpus: " + err.Error())
		r.Finish()
	}
	n := w.N
	byDigest := map[string]map[string]string{} // digest -> canon -> description
	noteDigest := func(x *pb.Transaction, what string) {
		d, err := txhash.MakeTxDigestHash(x)
		if err != nil {
			return
		}
		k := fmt.Sprintf("v%d:%x", x.Version, d)
		if byDigest[k] == nil {
			byDigest[k] = map[string]string{}
		}
		byDigest[k][canon(x)] = what
	}
	// generated items: transactions drawn by the block generator on the corpus node (multi-input /
	// multi-recipient transfers, one or two fee outputs, zero and frozen outputs, big amounts,
	// versions 1-3); only those the node accepts become items
	items := append([]corpus.Item{}, w.Items...)
	nodeOf := map[string]*sn.Node{} // generated items live on their own, richer chain
	{
		o := gen.DefaultOpts()
		o.KV = false
		rng := rand.New(rand.NewSource(r.Seed*7919 + 7))
		want := r.N(25, 300)
		for round := 0; round < 40 && len(items)-len(w.Items) < want; round++ {
			gt, err := gen.Generate(rng, o)
			if err != nil {
				continue
			}
			a, err := gt.Author(len(gt.Blocks) - 1)
			if err != nil {
				gt.Drop()
				continue
			}
			for tries := 0; tries < 12 && len(items)-len(w.Items) < want; tries++ {
				x, kind, err := gt.GenTx(rng, a)
				if err != nil || x == nil {
					continue
				}
				if ok, _, _ := verdict(a, x); !ok {
					r.Count("generated.not-accepted", 1)
					continue
				}
				k := sn.KeyByAddr(x.Initiator)
				if k == nil {
					continue
				}
				name := fmt.Sprintf("gen%d:%s", len(items), kind)
				items = append(items, corpus.Item{Name: name, Tx: x, Signers: []*sn.Key{k}})
				nodeOf[name] = a
				r.Count("generated.items", 1)
			}
		}
	}
	corpusNode := n
	for ii, it := range items {
		n := corpusNode
		if g := nodeOf[it.Name]; g != nil {
			n = g
		}
		if ok, _, d := verdict(n, it.Tx); !ok {
			r.Violation("corpus|honest-transaction-rejected|"+it.Name, "an honestly built transaction is rejected: "+d, map[string]string{"item": it.Name})
			continue
		}
		r.Count("corpus.items", 1)
		noteDigest(it.Tx, it.Name)
		muts := mutate.All(it.Tx)
		r.Count("mutants", len(muts))
		for _, m := range muts {
			x := m.Msg.(*pb.Transaction)
			field := m.Field()
			if strings.Contains(m.Path, "|") { // boundary shift between two fields
				field = strings.SplitN(m.Path, "|", 2)[0]
				field = strings.SplitN(field, ".", 2)[0]
				field = strings.SplitN(field, "[", 2)[0]
			}
			unc := uncovered(field, it.Tx.Version)
			if !unc && !isSigField(field) {
				noteDigest(x, it.Name+"/"+m.Path+"/"+m.Kind)
			}
			for _, mode := range []string{"id-kept", "id-recomputed"} {
				y := sn.CloneTx(x)
				if mode == "id-recomputed" {
					if field == "Txid" {
						continue
					}
					id, err := txhash.MakeTransactionID(y)
					if err != nil {
						continue
					}
					y.Txid = id
				}
				acc, fn, desc := verdict(n, y)
				r.Case(fmt.Sprintf("%s|%s|%s|%s", it.Name, m.Path, m.Kind, mode), !unc)
				r.Count("verified."+mode, 1)
				if strings.HasPrefix(desc, "PANIC") {
					r.Violation("verify|panic|"+field, fmt.Sprintf("VerifyTx panics on %s mutant %s/%s: %s", it.Name, m.Path, m.Kind, desc), wit(it, m, mode))
					continue
				}
				if fn {
					r.Violation("verify|false-nil|"+field, fmt.Sprintf("VerifyTx answered (false, nil) for %s mutant %s/%s (%s): SubmitTx only looks at the error", it.Name, m.Path, m.Kind, mode), wit(it, m, mode))
				}
				if acc && !unc {
					cls := "covered-field"
					if isSigField(field) {
						cls = "signature-field"
					}
					if known := malleability(it, m); known != "" && mode == "id-recomputed" {
						r.Violation(known, fmt.Sprintf("transaction %s with %s %s (id recomputed) is still accepted: same effects under another id", it.Name, m.Path, m.Kind), wit(it, m, mode))
						continue
					}
					r.Violation(fmt.Sprintf("mutant-accepted|%s|%s|%s|%s", cls, field, kindClass(m.Kind), mode),
						fmt.Sprintf("transaction %s with %s %s (%s) is still accepted", it.Name, m.Path, m.Kind, mode), wit(it, m, mode))
				}
				if unc {
					r.Count("uncovered-field-mutants", 1)
				}
			}
		}
		// ---- block path: a sample of the covered-field mutants (id left alone: the id is then not
		// the hash of the content) arrives inside a peer's block, under the id of the honest
		// original, with and without the original in the node's own pool ----
		{
			per := r.N(10, 60)
			var cand []mutate.Mutant
			for _, m := range muts {
				f := m.Field()
				if strings.Contains(m.Path, "|") || uncovered(f, it.Tx.Version) || f == "Txid" || malleability(it, m) != "" {
					continue
				}
				cand = append(cand, m)
			}
			stepM := len(cand)/per + 1
			for ci := 0; ci < len(cand); ci += stepM {
				m := cand[ci]
				withPool, viaWalk := (ci/stepM)%2 == 0, (ci/stepM)%3 != 2
				var fillers []*pb.Transaction
				if nodeOf[it.Name] == nil && ii < len(w.Items) && (ci/stepM)%2 == 1 {
					// corpus items are valid side by side: two of the others ride along
					for d := 1; d <= 2; d++ {
						o := w.Items[(ii+d)%len(w.Items)]
						if o.Name != it.Name {
							fillers = append(fillers, o.Tx)
						}
					}
					r.Count("blockpath.trials.several-groups", 1)
				}
				acc, skipped, desc := blockVerdict(n, it.Tx, m.Msg.(*pb.Transaction), withPool, viaWalk, fillers...)
				if skipped {
					r.Count("blockpath.skipped", 1)
					continue
				}
				r.Case(fmt.Sprintf("%s|block|%s|%s|pool=%v|walk=%v", it.Name, m.Path, m.Kind, withPool, viaWalk), true)
				r.Count("blockpath.trials", 1)
				if withPool {
					r.Count("blockpath.trials.original-in-pool", 1)
				}
				if strings.HasPrefix(desc, "PANIC") {
					r.Violation("verify|panic|block-path|"+m.Field(), fmt.Sprintf("applying a block with %s mutant %s/%s panics: %s", it.Name, m.Path, m.Kind, desc), wit(it, m, "block"))
					continue
				}
				if acc {
					r.Violation(fmt.Sprintf("mutant-accepted|block-path|%s|%s|original-in-pool=%v", m.Field(), kindClass(m.Kind), withPool),
						fmt.Sprintf("a block carrying transaction %s with %s %s under the original id is applied (original in pool: %v, via walk: %v)", it.Name, m.Path, m.Kind, withPool, viaWalk), wit(it, m, "block"))
				}
			}
			// the honest original itself inside a block must be accepted (the oracle can say yes)
			if acc, skipped, desc := blockVerdict(n, it.Tx, it.Tx, ii%2 == 0, true); !skipped {
				r.Count("blockpath.honest", 1)
				if !acc {
					r.Violation("corpus|honest-transaction-rejected-in-block|"+it.Name, "a block carrying the honest transaction is refused: "+desc, map[string]string{"item": it.Name})
				}
			}
		}
		// ---- signature attacks ----
		attack := func(name string, y *pb.Transaction, mustReject bool) {
			if y == nil {
				return
			}
			acc, fn, desc := verdict(n, y)
			r.Case(it.Name+"|attack|"+name, true)
			r.Count("attacks", 1)
			if fn {
				r.Violation("verify|false-nil|attack", "VerifyTx answered (false, nil) for attack "+name+" on "+it.Name, map[string]string{"item": it.Name, "attack": name})
			}
			if acc && mustReject {
				r.Violation("attack-accepted|"+strings.SplitN(name, "#", 2)[0], fmt.Sprintf("attack %s on %s is accepted (%s)", name, it.Name, desc), map[string]string{"item": it.Name, "attack": name})
			}
		}
		reid := func(y *pb.Transaction) *pb.Transaction {
			y.Txid, _ = txhash.MakeTransactionID(y)
			z, _ := sn.Wire(y)
			return z
		}
		// replay the signature of another transaction of the same signer
		other := items[(ii+1)%len(items)]
		if len(it.Tx.InitiatorSigns) > 0 && len(other.Tx.InitiatorSigns) > 0 {
			y := sn.CloneTx(it.Tx)
			y.InitiatorSigns[0].Sign = append([]byte{}, other.Tx.InitiatorSigns[0].Sign...)
			for i := range y.AuthRequireSigns {
				if y.AuthRequireSigns[i].PublicKey == y.InitiatorSigns[0].PublicKey {
					y.AuthRequireSigns[i].Sign = y.InitiatorSigns[0].Sign
				}
			}
			attack("replayed-signature-of-another-tx", reid(y), true)
		}
		// foreign key: outsider signs in place of signer i
		outsider := sn.K(7)
		for i := range it.Signers {
			ks := append([]*sn.Key{}, it.Signers...)
			ks[i] = outsider
			y := sn.CloneTx(it.Tx)
			if err := sn.SignTx(y, ks, it.XuperSign); err == nil {
				y, _ = sn.Wire(y)
				attack(fmt.Sprintf("foreign-key-and-its-own-pubkey#%d", i), y, true)
				// same signature bytes but the victim's public key
				z := sn.CloneTx(y)
				victim := it.Signers[i].PubJSON
				for _, s := range z.InitiatorSigns {
					if s.PublicKey == outsider.PubJSON {
						s.PublicKey = victim
					}
				}
				for _, s := range z.AuthRequireSigns {
					if s.PublicKey == outsider.PubJSON {
						s.PublicKey = victim
					}
				}
				if z.XuperSign != nil {
					for j, pk := range z.XuperSign.PublicKeys {
						if string(pk) == outsider.PubJSON {
							z.XuperSign.PublicKeys[j] = []byte(victim)
						}
					}
				}
				attack(fmt.Sprintf("foreign-key-with-victims-pubkey#%d", i), reid(z), true)
			}
		}
		// drop a needed signer and re-sign properly with the rest
		if len(it.Signers) > 1 {
			for i := range it.Signers {
				// needed = owns a spent output, or is a member of the multi-key account (both members are needed: 0.5 + 0.5)
				needed := false
				for _, in := range it.Tx.TxInputs {
					if string(in.FromAddr) == it.Signers[i].Address {
						needed = true
					}
					if string(in.FromAddr) == corpus.Account && (it.Signers[i] == sn.K(1) || it.Signers[i] == sn.K(2)) {
						needed = true
					}
				}
				if !needed {
					continue
				}
				ks := append(append([]*sn.Key{}, it.Signers[:i]...), it.Signers[i+1:]...)
				y := sn.CloneTx(it.Tx)
				if len(y.AuthRequire) == len(it.Signers) {
					y.AuthRequire = append(append([]string{}, y.AuthRequire[:i]...), y.AuthRequire[i+1:]...)
				}
				if i == 0 && !strings.Contains(y.Initiator, "@") {
					y.Initiator = ks[0].Address
				}
				if err := sn.SignTx(y, ks, it.XuperSign); err == nil {
					y, _ = sn.Wire(y)
					attack(fmt.Sprintf("needed-signer-dropped-and-resigned#%d", i), y, true)
				}
				// replace the needed signer by a repeat of another signer (a repeated entry contributes nothing)
				j := (i + 1) % len(it.Signers)
				if j == 0 && !strings.Contains(it.Tx.Initiator, "@") && len(it.Signers) > 2 {
					j = 1 // keep the address initiator's own entry single
				}
				if j != i {
					ks2 := append([]*sn.Key{}, it.Signers...)
					ks2[i] = it.Signers[j]
					z := sn.CloneTx(it.Tx)
					if len(z.AuthRequire) == len(it.Signers) {
						z.AuthRequire = append([]string{}, z.AuthRequire...)
						z.AuthRequire[i] = z.AuthRequire[j]
					}
					if i == 0 && !strings.Contains(z.Initiator, "@") {
						z.Initiator = ks2[0].Address
					}
					if err := sn.SignTx(z, ks2, it.XuperSign); err == nil {
						z, _ = sn.Wire(z)
						attack(fmt.Sprintf("needed-signer-replaced-by-repeat-of-another#%d", i), z, true)
					}
				}
			}
		}
		// swap the signatures of two signers
		if len(it.Tx.AuthRequireSigns) > 1 {
			y := sn.CloneTx(it.Tx)
			y.AuthRequireSigns[0], y.AuthRequireSigns[1] = y.AuthRequireSigns[1], y.AuthRequireSigns[0]
			// must be rejected when at least one of the two entries is actually looked at
			must := malleability(it, mutate.Mutant{Path: "AuthRequireSigns[0].Sign"}) == "" || malleability(it, mutate.Mutant{Path: "AuthRequireSigns[1].Sign"}) == ""
			attack("swapped-signer-signatures", reid(y), must)
		}
		// unsigned
		{
			y := sn.CloneTx(it.Tx)
			y.InitiatorSigns, y.AuthRequireSigns, y.XuperSign = nil, nil, nil
			attack("all-signatures-removed", reid(y), true)
			if it.Tx.XuperSign == nil {
				y = sn.CloneTx(it.Tx)
				y.InitiatorSigns = []*protos.SignatureInfo{}
				attack("initiator-signature-removed", reid(y), true)
			}
		}
		if ii < 2 {
			r.Sample(map[string]interface{}{"item": it.Name, "mutants": len(muts), "first_mutants": describe(muts, 8)})
		}
	}
	// ---- outputs of account names WITHOUT a rule: nobody has authority over them ----
	if w.RulelessFunding != nil {
		n := corpusNode
		for off, owner := range []string{corpus.RulelessAccount, corpus.ForeignAccount} {
			out := w.RulelessFunding.TxOutputs[off]
			in := &protos.TxInput{RefTxid: w.RulelessFunding.Txid, RefOffset: int32(off), FromAddr: []byte(owner), Amount: out.Amount}
			thief := sn.K(5)
			shapes := map[string]sn.TxSpec{
				"account-named-as-initiator":           {Initiator: owner, Signers: []*sn.Key{thief}},
				"account-named-as-initiator+authreq":   {Initiator: owner, Signers: []*sn.Key{thief}, AuthReq: []string{owner + "/" + thief.Address}},
				"thief-initiator+account-in-authreq":   {Initiator: thief.Address, Signers: []*sn.Key{thief}, AuthReq: []string{owner + "/" + thief.Address}},
				"thief-initiator-no-authreq":           {Initiator: thief.Address, Signers: []*sn.Key{thief}},
				"thief-initiator+bare-account-authreq": {Initiator: thief.Address, Signers: []*sn.Key{thief}, AuthReq: []string{owner}},
			}
			for name, spec := range shapes {
				spec.Inputs = []*protos.TxInput{in}
				spec.Outputs = []sn.Out{{To: thief.Address, Amount: new(big.Int).SetBytes(out.Amount)}}
				spec.Nonce = fmt.Sprintf("ruleless-%d-%s", off, name)
				spec.Timestamp = 99
				y, err := sn.BuildTx(spec)
				if err != nil {
					r.Count("attacks.not-buildable", 1)
					continue
				}
				acc, fn, desc := verdict(n, y)
				r.Case("ruleless|"+owner+"|"+name, true)
				r.Count("attacks", 1)
				r.Count("attacks.ruleless-owner", 1)
				if fn {
					r.Violation("verify|false-nil|attack", "VerifyTx answered (false, nil) for a spend of a rule-less account's output ("+name+")", map[string]string{"owner": owner, "attack": name})
				}
				if acc {
					r.Violation("attack-accepted|output-of-account-without-rule-spent|"+name, fmt.Sprintf("an output owned by %s, an account name without any rule on this chain, is spent by an unrelated key (%s): %s", owner, name, desc),
						map[string]string{"owner": owner, "attack": name})
				}
			}
		}
	}
	// ---- block path: transfers that carry no signature at all but set one of the flags that
	// select another verification route for block transactions ----
	{
		n := corpusNode
		victim, thief := sn.K(0), sn.K(5)
		if ins, _, tot, err := n.State.SelectUtxos(victim.Address, big.NewInt(50), false, false); err == nil && len(ins) > 0 {
			for _, name := range []string{"autogen-flag", "autogen-flag+dummy-rwset", "coinbase-flag-with-inputs", "plain-unsigned"} {
				y := &pb.Transaction{Version: 3, Nonce: "unsigned-" + name, Timestamp: 4242, TxInputs: ins,
					TxOutputs: []*protos.TxOutput{{ToAddr: []byte(thief.Address), Amount: tot.Bytes()}}}
				switch name {
				case "autogen-flag":
					y.Autogen = true
				case "autogen-flag+dummy-rwset":
					y.Autogen = true
					y.TxInputsExt = []*protos.TxInputExt{{Bucket: "vb9", Key: []byte("nokey")}}
				case "coinbase-flag-with-inputs":
					y.Coinbase = true
				}
				y.Txid, _ = txhash.MakeTransactionID(y)
				y, _ = sn.Wire(y)
				acc, skipped, desc := blockVerdict(n, y, y, false, true)
				if skipped {
					continue
				}
				r.Case("block|unsigned|"+name, true)
				r.Count("attacks", 1)
				r.Count("attacks.unsigned-in-block", 1)
				if os.Getenv("C07_DEBUG") != "" {
					fmt.Fprintf(os.Stderr, "c07 debug: unsigned %s -> accepted=%v %s\n", name, acc, desc)
				}
				if acc {
					r.Violation("attack-accepted|unsigned-transfer-in-block|"+name, fmt.Sprintf("a block carrying a transfer of %s's output to another address WITHOUT ANY SIGNATURE (%s) is applied by Walk: %s", victim.Address, name, desc),
						map[string]string{"attack": name, "victim": victim.Address})
				}
			}
		}
	}
	// ---- outputs spent "by the contract code" must be the payer's own ----
	// Inputs a transaction declares as spent by its contract code are exempt from their owner's
	// signature because re-executing the code reproduces them - and the code pays on behalf of
	// the address it names, out of THAT address's outputs. A transaction signed by the payer alone
	// whose declared list continues with somebody else's output (needed because the amount
	// exceeds the payer's own) must be refused.
	{
		n := corpusNode
		payer, victim, receiver := sn.K(1), sn.K(0), sn.K(3)
		own, _, ownTot, err1 := n.State.SelectUtxos(payer.Address, big.NewInt(1), false, false)
		vic, _, vicTot, err2 := n.State.SelectUtxos(victim.Address, big.NewInt(1), false, false)
		if err1 == nil && err2 == nil && len(own) > 0 && len(vic) > 0 {
			// the honest shape of everything that is not a token: taken from ONE real pre-execution of
			// the same program with an amount the payer can afford (a pre-execution reserves the
			// outputs it selects, so it is not repeated)
			small := (&sn.ProgBuilder{}).Transfer(payer.Address, receiver.Address, "1")
			res, preErr := n.PreExec([]*protos.InvokeRequest{sn.VerifReq(sn.VerifContract, small.String())}, payer.Address, []string{payer.Address})
			build := func(amount *big.Int, spent []*protos.TxInput, total *big.Int) (*pb.Transaction, error) {
				p := (&sn.ProgBuilder{}).Transfer(payer.Address, receiver.Address, amount.String())
				if preErr != nil {
					return nil, preErr
				}
				outs := []*protos.TxOutput{{Amount: amount.Bytes(), ToAddr: []byte(receiver.Address)}}
				if total.Cmp(amount) > 0 {
					outs = append(outs, &protos.TxOutput{Amount: new(big.Int).Sub(total, amount).Bytes(), ToAddr: []byte(payer.Address)})
				}
				inBuf, err := xmodel.MarshalMessages(spent)
				if err != nil {
					return nil, err
				}
				outBuf, err := xmodel.MarshalMessages(outs)
				if err != nil {
					return nil, err
				}
				var ext []*protos.TxOutputExt
				for _, o := range res.Outputs {
					c := proto.Clone(o).(*protos.TxOutputExt)
					if c.Bucket == xmodel.TransientBucket && string(c.Key) == "ContractUtxo.Inputs" {
						c.Value = inBuf
					}
					if c.Bucket == xmodel.TransientBucket && string(c.Key) == "ContractUtxo.Outputs" {
						c.Value = outBuf
					}
					ext = append(ext, c)
				}
				var so []sn.Out
				for _, o := range outs {
					so = append(so, sn.Out{To: string(o.ToAddr), Raw: o.Amount})
				}
				return sn.BuildTx(sn.TxSpec{Version: 3, Initiator: payer.Address, Signers: []*sn.Key{payer}, Inputs: spent, Outputs: so,
					InExt: res.Inputs, OutExt: ext, Requests: []*protos.InvokeRequest{sn.VerifReq(sn.VerifContract, p.String())},
					Nonce: "contract-spend-" + amount.String(), Timestamp: 4250})
			}
			try := func(name string, y *pb.Transaction, mustRefuse bool) {
				if y == nil {
					return
				}
				acc, fn, desc := verdict(n, y)
				if acc {
					if tw, err := n.Twin(); err == nil {
						if derr := tw.State.DoTx(sn.CloneTx(y)); derr != nil {
							acc, desc = false, "admission: "+derr.Error()
						}
						tw.Drop()
					}
				}
				r.Case("attack|contract-spend|"+name, true)
				r.Count("attacks", 1)
				r.Count("attacks.contract-spend", 1)
				if os.Getenv("C07_DEBUG") != "" {
					fmt.Fprintf(os.Stderr, "c07 debug: contract-spend %s -> accepted=%v falseNil=%v %s\n", name, acc, fn, desc)
				}
				if acc && mustRefuse {
					r.Violation("attack-accepted|contract-spends-output-of-another-owner|"+name, fmt.Sprintf("a transaction signed by %s alone whose contract call pays more than %s's own declared output and whose declared contract-spent inputs continue with an output of %s is accepted: %s's output is spent without its owner's signature", payer.Address, payer.Address, victim.Address, victim.Address),
						map[string]string{"attack": name, "victim": victim.Address})
				}
				if !acc && !mustRefuse {
					r.Violation("corpus|honest-contract-payment-rejected", "a contract payment out of the payer's own output, built the same way as the forgery, is refused: "+desc, map[string]string{"attack": name})
				}
			}
			// control: the payer pays out of its own output (the oracle can say yes)
			if y, err := build(big.NewInt(1), own[:1], new(big.Int).SetBytes(own[0].Amount)); err == nil {
				try("own-output-only", y, false)
			}
			_ = ownTot
			// forgery: amount one above the payer's first output; the victim's output listed after it
			a1 := new(big.Int).SetBytes(own[0].Amount)
			both := new(big.Int).Add(a1, new(big.Int).SetBytes(vic[0].Amount))
			if y, err := build(new(big.Int).Add(a1, big.NewInt(1)), []*protos.TxInput{own[0], vic[0]}, both); err == nil {
				try("victim-output-after-own", y, true)
			} else if os.Getenv("C07_DEBUG") != "" {
				fmt.Fprintf(os.Stderr, "c07 debug: forged build failed: %v\n", err)
			}
			// and the victim's output first
			if y, err := build(new(big.Int).Add(new(big.Int).SetBytes(vic[0].Amount), big.NewInt(1)), []*protos.TxInput{vic[0], own[0]}, both); err == nil {
				try("victim-output-first", y, true)
			}
			_ = vicTot
		}
	}
	// ---- a forged body under the id of a transaction whose verification is in flight ----
	// The engine verifies submissions without any lock (Chain.SubmitTx -> State.VerifyTx), so copies
	// of one id can be verified at the same time. Whatever is shared between such verifications,
	// a body that is not what the id commits to must be refused, and the pool must never hold a
	// transaction whose id is not the hash of its body.
	{
		n := corpusNode
		var multi []corpus.Item
		for _, it := range w.Items {
			if len(it.Tx.AuthRequireSigns)+len(it.Tx.InitiatorSigns) >= 3 && len(it.Tx.TxOutputs) > 0 && len(it.Tx.ContractRequests) == 0 {
				multi = append(multi, it) // several signatures: its verification stays open longer
			}
		}
		rounds := r.N(60, 600)
		for ri := 0; ri < rounds && len(multi) > 0; ri++ {
			it := multi[ri%len(multi)]
			tw, err := n.Twin()
			if err != nil {
				break
			}
			forged := sn.CloneTx(it.Tx)
			forged.TxOutputs[0].ToAddr = []byte(sn.K(5).Address) // id and signatures kept
			var wg sync.WaitGroup
			start := make(chan struct{})
			acks := make([]error, 4)
			for g := 0; g < 4; g++ {
				wg.Add(1)
				go func(g int) {
					defer wg.Done()
					defer func() {
						if p := recover(); p != nil {
							acks[g] = fmt.Errorf("PANIC: %v", p)
						}
					}()
					<-start
					if g == 0 {
						acks[g] = tw.SubmitTx(sn.CloneTx(it.Tx))
					} else {
						for k := 0; k < g; k++ {
							runtime.Gosched()
						}
						acks[g] = tw.SubmitTx(sn.CloneTx(forged))
					}
				}(g)
			}
			close(start)
			wg.Wait()
			r.Case("attack|forged-copy-of-in-flight-tx|"+it.Name, true)
			r.Count("attacks", 1)
			r.Count("attacks.forged-copy-in-flight", 1)
			bad := ""
			for g := 1; g < 4; g++ {
				if acks[g] == nil {
					bad = fmt.Sprintf("submission %d of a body that is not what the id commits to (first output redirected, id and signatures of the honest transaction %s kept) was acknowledged while the honest one was being verified", g, it.Name)
				} else if strings.HasPrefix(acks[g].Error(), "PANIC") {
					bad = acks[g].Error()
				}
			}
			pool, _ := tw.State.GetUnconfirmedTx(false)
			for _, x := range pool {
				if id, err := txhash.MakeTransactionID(x); err != nil || string(id) != string(x.Txid) {
					bad = fmt.Sprintf("the pool holds a transaction under id %x whose body hashes to %x", x.Txid, id)
				}
			}
			tw.Drop()
			if bad != "" {
				r.Violation("attack-accepted|forged-body-under-the-id-of-a-transaction-in-flight", bad, map[string]string{"item": it.Name})
				break
			}
		}
	}
	// ---- a forged coinbase as the block's ONLY coinbase ----
	// The trials above put the forgery next to the honest award, so the ledger's "one coinbase per
	// block" rule refuses the block before the state machine sees it. A producer who forges leaves
	// the honest award out: the block's only coinbase-flagged transaction pays the award amount
	// in its first output (all the award rule looks at) and (a) spends a victim's output, (b)
	// writes a key, without any signature. The state machine verifies coinbase-flagged
	// transactions neither as user nor as timer transactions.
	{
		n := corpusNode
		victim, thief := sn.K(0), sn.K(5)
		award := n.Ledger.GenesisBlock.CalcAward(n.LedgerHeight() + 1)
		for _, name := range []string{"sole-coinbase-spends-victim-output", "sole-coinbase-writes-key", "sole-coinbase-pays-itself-a-fee", "sole-coinbase-honest-shape"} {
			y := &pb.Transaction{Version: 1, Coinbase: true, Desc: []byte("award"), Timestamp: 4243,
				TxOutputs: []*protos.TxOutput{{ToAddr: []byte(thief.Address), Amount: award.Bytes()}}}
			mustRefuse := true
			switch name {
			case "sole-coinbase-spends-victim-output":
				ins, _, tot, err := n.State.SelectUtxos(victim.Address, new(big.Int).Add(award, big.NewInt(1)), false, false)
				if err != nil || len(ins) == 0 {
					continue
				}
				y.TxInputs = ins
				y.TxOutputs = append(y.TxOutputs, &protos.TxOutput{ToAddr: []byte(thief.Address), Amount: new(big.Int).Sub(tot, award).Bytes()})
			case "sole-coinbase-writes-key":
				// cite the key's current version, as an honest writer would
				rd := n.State.CreateXMReader()
				cur, err := rd.Get("vb1", []byte("forged-by-coinbase"))
				in := &protos.TxInputExt{Bucket: "vb1", Key: []byte("forged-by-coinbase")}
				if err == nil && cur != nil && cur.RefTxid != nil {
					in.RefTxid, in.RefOffset = cur.RefTxid, cur.RefOffset
				}
				y.TxInputsExt = []*protos.TxInputExt{in}
				y.TxOutputsExt = []*protos.TxOutputExt{{Bucket: "vb1", Key: []byte("forged-by-coinbase"), Value: []byte("unsigned")}}
			case "sole-coinbase-pays-itself-a-fee":
				// a fee ("$") output is handed to the proposer out of the paying transaction's inputs;
				// a coinbase has none: the payment is new tokens outside the total supply (C02)
				y.TxOutputs = append(y.TxOutputs, &protos.TxOutput{ToAddr: []byte("$"), Amount: big.NewInt(5).Bytes()})
			case "sole-coinbase-honest-shape":
				mustRefuse = false // the oracle can say yes: exactly what a miner's award looks like
			}
			y.Txid, _ = txhash.MakeTransactionID(y)
			y, _ = sn.Wire(y)
			acc, skipped, desc := func() (accepted bool, skipped bool, desc string) {
				defer func() {
					if p := recover(); p != nil {
						accepted, skipped, desc = false, false, "PANIC: "+fmt.Sprint(p)
					}
				}()
				tw, err := n.Twin()
				if err != nil {
					return false, true, err.Error()
				}
				defer tw.Drop()
				blk, err := tw.FormatBlock(tw.StateTip(), tw.LedgerHeight()+1, thief, 77778, []*pb.Transaction{y}, false)
				if err != nil {
					return false, true, err.Error()
				}
				// the engine's receive path: award rule, block verification, ConfirmBlock, Walk
				if err := tw.ProcBlock(blk); err != nil {
					return false, false, err.Error()
				}
				return string(tw.StateTip()) == string(blk.Blockid), false, "applied"
			}()
			if skipped {
				continue
			}
			r.Case("block|sole-coinbase|"+name, true)
			r.Count("attacks", 1)
			r.Count("attacks.sole-coinbase", 1)
			if os.Getenv("C07_DEBUG") != "" {
				fmt.Fprintf(os.Stderr, "c07 debug: %s -> accepted=%v %s\n", name, acc, desc)
			}
			if acc && mustRefuse {
				r.Violation("attack-accepted|unsigned-in-block|"+name, fmt.Sprintf("a block whose only coinbase-flagged transaction pays the award amount in its first output and, WITHOUT ANY SIGNATURE, %s is accepted through the engine's receive path and applied", name),
					map[string]string{"attack": name, "victim": victim.Address})
			}
			if !acc && !mustRefuse {
				r.Violation("corpus|honest-award-only-block-refused", "a block holding just an honest-shaped award is refused: "+desc, map[string]string{"attack": name})
			}
		}
	}
	// ---- digest injectivity ----
	for k, group := range byDigest {
		r.Count("digest.groups", 1)
		if len(group) > 1 {
			var ds []string
			for _, d := range group {
				ds = append(ds, d)
			}
			sortStrings(ds)
			ver := strings.SplitN(k, ":", 2)[0]
			cls := fieldPairClass(ds)
			r.Violation("digest-collision|"+ver+"|"+cls, fmt.Sprintf("%d transactions with different covered content share signing digest %s: %s", len(group), k, strings.Join(ds, " ;; ")),
				map[string]interface{}{"digest": k, "members": ds})
		}
	}
	r.Floor("corpus.items", 10)
	r.Floor("mutants", 1500)
	r.Floor("attacks", 60)
	r.Floor("attacks.contract-spend", 3)
	r.Floor("attacks.forged-copy-in-flight", 40)
	r.Floor("attacks.sole-coinbase", 4)
	r.Floor("blockpath.trials", 200)
	r.Floor("blockpath.trials.original-in-pool", 80)
	r.Floor("blockpath.honest", 10)
	r.Floor("blockpath.trials.several-groups", 20)
	r.Floor("digest.groups", 1200)
	r.Assume("ECDSA P-256 and SHA-256 are trusted; Chain.SubmitTx adds only the duplicate-id cache and the no-input rule in front of State.VerifyTx + DoTx")
	r.Finish()
}

func wit(it corpus.Item, m mutate.Mutant, mode string) map[string]string {
	return map[string]string{"item": it.Name, "path": m.Path, "kind": m.Kind, "mode": mode}
}

func kindClass(k string) string {
	if i := strings.Index(k, "["); i >= 0 {
		return k[:i]
	}
	return k
}

func describe(ms []mutate.Mutant, n int) []string {
	var out []string
	for i, m := range ms {
		if i >= n {
			break
		}
		out = append(out, m.Path+"/"+m.Kind)
	}
	return out
}

func sortStrings(a []string) {
	for i := 1; i < len(a); i++ {
		for j := i; j > 0 && a[j] < a[j-1]; j-- {
			a[j], a[j-1] = a[j-1], a[j]
		}
	}
}

// fieldPairClass names the fields involved in a collision group (random ids stripped).
func fieldPairClass(ds []string) string {
	set := map[string]bool{}
	for _, d := range ds {
		parts := strings.Split(d, "/")
		if len(parts) >= 2 {
			p := parts[1]
			var sb strings.Builder
			for _, c := range p {
				if c >= '0' && c <= '9' {
					continue
				}
				sb.WriteRune(c)
			}
			set[sb.String()] = true
		} else {
			set["original"] = true
		}
	}
	var ks []string
	for k := range set {
		ks = append(ks, k)
	}
	sortStrings(ks)
	return strings.Join(ks, "+")
}

// malleability classifies an accepted signature-field mutant into one of the two known
// malleability findings by its structural precondition ("" = neither).
func malleability(it corpus.Item, m mutate.Mutant) string {
	path := m.Path
	if i := strings.Index(path, "|"); i >= 0 {
		path = path[:i]
	}
	list := path
	idx := -1
	rest := ""
	if i := strings.Index(path, "["); i >= 0 {
		list = path[:i]
		fmt.Sscanf(path[i:], "[%d]", &idx)
		if j := strings.Index(path, "]."); j >= 0 {
			rest = path[j+2:]
		}
	}
	if idx < 0 && strings.HasPrefix(m.Kind, "overwrite[") {
		fmt.Sscanf(m.Kind, "overwrite[%d<-", &idx) // only entry idx changes
	}
	tx := it.Tx
	accountInit := strings.Contains(tx.Initiator, "@")
	checked := true
	if tx.XuperSign != nil && (list == "InitiatorSigns" || list == "AuthRequireSigns") {
		return "malleable|signature-entry-never-checked" // the legacy lists are not looked at when xuper_sign is present
	}
	switch list {
	case "InitiatorSigns":
		if !accountInit && idx != 0 {
			checked = false // only entry 0 is looked at for an address initiator (idx -1: list-level dup / append)
		}
	case "AuthRequireSigns":
		verified := map[string]bool{}
		if !accountInit {
			verified[tx.Initiator] = true
		} else {
			for _, k := range it.Signers {
				verified[k.Address] = true
			}
		}
		for i, a := range tx.AuthRequire {
			parts := strings.Split(a, "/")
			addr := parts[len(parts)-1]
			if i == idx {
				checked = !verified[addr]
				break
			}
			if idx < 0 && !verified[addr] {
				return "" // list-level edit touching a checked entry
			}
			verified[addr] = true
		}
		if idx < 0 {
			checked = false // every entry of the list belongs to an already verified address
		}
	default:
		return ""
	}
	if !checked {
		return "malleable|signature-entry-never-checked"
	}
	if list == "InitiatorSigns" && accountInit && idx < 0 && (strings.HasPrefix(m.Kind, "dup") || strings.HasPrefix(m.Kind, "swap")) {
		return "malleable|valid-signatures-repeated-or-reordered"
	}
	if rest == "Sign" && m.Kind == "extend" {
		return "malleable|signature-encoding-trailing-bytes-ignored"
	}
	return ""
}
