// C01: state at a block is a pure function of that block's chain.
package main

import (
	"fmt"
	"math/rand"

	"verif/ev"
	"verif/gen"
	"verif/hist"
	sn "verif/simnode"
)

func main() {
	r := ev.Start("C01", "exploration",
		"random block trees (forks, shared txs, transfers/fees/zero/frozen/big amounts, key put/del/re-create/read-only) x random legal op sequences "+
			"(confirm, play, mine=PlayForMiner, walk incl. cross-fork, reopen, pool submissions); after every op all observables are compared with a fresh node "+
			"opened on canon(tip) + the SUT's pool; a case = one history, distinct by tree shape + op sequence; non-trivial = at least one walk that undid a block")
	defer sn.CleanupScratch()
	nh := r.N(150, 4000)
	hist.RunHistoriesX(r, nh, gen.DefaultOpts(), hist.StepOpts{Reopen: true, Pool: true, Mine: true, Engine: true}, 10, 40,
		[]hist.Auditor{hist.CanonAuditor}, func(s *hist.SUT, op hist.Op) []hist.Problem {
			return hist.MustSucceed(op)
		}, func(s *hist.SUT, rng *rand.Rand) []hist.Problem {
			// now and then a peer's block that the state machine must refuse is offered to Play (junk
			// transaction, or a conflict with the pool + a bad signature): whether the refusal leaves
			// a trace is C05's question; here the state must still be the function of its block
			if rng.Intn(12) != 0 {
				return nil
			}
			if op, _ := s.FailPlay(rng); op.Kind == "" {
				return nil
			}
			return hist.CanonAuditor(s, hist.Op{})
		})
	r.Floor("walk.undo", 20)
	r.Floor("walk.crossfork", 10)
	r.Floor("walk.undo2+", 5)
	r.Floor("op.mine", 10)
	r.Floor("op.reopen", 10)
	r.Floor("canon.compared", 500)
	r.Assume("canon(B) is produced by the same Play code on a node without history; a defect common to first-time play on every node is out of reach of this oracle (C02/C03 models cover part of it)")
	r.Assume("verifmem models leveldb's atomicity: single Put/Delete and Batch.Write are atomic, iterators are snapshots")
	_ = fmt.Sprint
	_ = rand.Int
	r.Finish()
}
