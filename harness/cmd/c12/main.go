// C12: concurrent submissions are serialisable: conflict-free admission, no deadlock.
package main

import (
	"encoding/json"
	"flag"
	"fmt"
	"io/ioutil"
	"os"
	"os/exec"
	"path/filepath"
	"strings"
	"time"

	"verif/ev"
	sn "verif/simnode"
)

var (
	child    = flag.String("child", "", "child mode")
	childOut = flag.String("out", "", "child result file")
	childArg = flag.String("arg", "", "child argument")
	childN   = flag.Int("n", 0, "child size")
	childSd  = flag.Int64("cseed", 1, "child seed")
)

func main() {
	for _, a := range os.Args[1:] {
		if a == "-child" {
			flag.Parse()
			runChild()
			return
		}
	}
	r := ev.Start("C12", "exploration",
		"(1) lock-protocol monitor on the public SpinLock API under stress (readers+writers of one key, writers only, two keys mixed with output spenders, spenders only): holder table asserts "+
			"exclusive <-> no other holder, nothing left locked at quiescence; (2) free-running rounds on a real node: 2-8 goroutines issue pre-built conflicting / dependent / disjoint DoTx, "+
			"SelectUtxos(lock) and a concurrent Play of the next block; each round's history (call/return from one atomic counter) is checked for an explaining sequential order with porcupine "+
			"against the statement-level model, contention refusals must overlap a conflicting call, selected outputs must be pairwise disjoint, and at quiescence pool validity, conservation and "+
			"live == reopened twin are audited; all children run under the race detector; reports with both frames in the lock-protocol files are violations; a case = one round or one stress "+
			"pattern run; distinct by pattern + interleaving signature (order of call/return events); non-trivial = at least two overlapping conflicting calls")
	defer sn.CleanupScratch()
	runParent(r)
	r.Finish()
}

// ---- child plumbing ----

func runChild() {
	defer sn.CleanupScratch()
	var out interface{}
	switch *child {
	case "spin":
		out = spinStress(*childSd, *childArg, *childN)
	case "rounds":
		out = runRounds(*childSd, *childArg, *childN)
	case "bursts":
		out = runBursts(*childSd, *childN)
	case "sched":
		// arg = pattern/schedules-per-scenario
		f := strings.SplitN(*childArg, "/", 2)
		per := 40
		if len(f) == 2 {
			fmt.Sscanf(f[1], "%d", &per)
		}
		out = runSched(*childSd, f[0], *childN, per)
	case "producer":
		out = runProducer(*childSd, *childN, *childArg == "receiver")
	default:
		fmt.Fprintln(os.Stderr, "unknown child mode")
		os.Exit(3)
	}
	buf, _ := json.Marshal(out)
	if err := ioutil.WriteFile(*childOut, buf, 0644); err != nil {
		os.Exit(3)
	}
}

type childRes struct {
	exit     int
	timedOut bool
	stderr   string
	data     []byte
}

func spawn(mode, arg string, n int, seed int64, timeout time.Duration) childRes {
	dir := filepath.Join(ev.Root(), ".build")
	os.MkdirAll(dir, 0755)
	out := filepath.Join(dir, fmt.Sprintf("c12-%s-%s-%d.json", mode, strings.ReplaceAll(arg, "/", "_"), seed))
	os.Remove(out)
	errf := out + ".stderr"
	cmd := exec.Command(os.Args[0], "-child", mode, "-arg", arg, "-n", fmt.Sprint(n), "-cseed", fmt.Sprint(seed), "-out", out)
	ef, _ := os.Create(errf)
	cmd.Stderr = ef
	cmd.Stdout = ef
	cmd.Env = append(os.Environ(), "VERIF_KEEP_STDOUT=1")
	res := childRes{}
	if err := cmd.Start(); err != nil {
		res.exit = -1
		return res
	}
	done := make(chan error, 1)
	go func() { done <- cmd.Wait() }()
	select {
	case err := <-done:
		if err != nil {
			if ee, ok := err.(*exec.ExitError); ok {
				res.exit = ee.ExitCode()
			} else {
				res.exit = -1
			}
		}
	case <-time.After(timeout):
		// ask for a goroutine dump, then kill
		cmd.Process.Signal(syscallSIGQUIT)
		select {
		case <-done:
		case <-time.After(5 * time.Second):
			cmd.Process.Kill()
			<-done
		}
		res.timedOut = true
	}
	ef.Close()
	if b, err := ioutil.ReadFile(errf); err == nil {
		if len(b) > 200000 {
			b = b[len(b)-200000:]
		}
		res.stderr = string(b)
	}
	res.data, _ = ioutil.ReadFile(out)
	os.Remove(out)
	os.Remove(errf)
	return res
}
