package main

import (
	"fmt"
	"math/rand"
	"runtime"
	"sync"
	"sync/atomic"

	"github.com/xuperchain/xupercore/bcs/ledger/xledger/state/utxo"
	pb "github.com/xuperchain/xupercore/bcs/ledger/xledger/xldgpb"
	"github.com/xuperchain/xupercore/protos"
)

// lock-protocol monitor: a holder table updated under its own mutex, entered right after a
// successful TryLock and left right before Unlock. Every overlap it sees is a real overlap
// of two critical sections (its intervals lie inside the real ones).
type holderTable struct {
	mu        sync.Mutex
	exclusive map[string]int // key -> holder id (+1)
	shared    map[string]map[int]bool
	ww, rw    int64
	first     string
}

func newHolderTable() *holderTable {
	return &holderTable{exclusive: map[string]int{}, shared: map[string]map[int]bool{}}
}

type want struct {
	key  string
	excl bool
}

func (h *holderTable) enter(id int, ws []want) {
	h.mu.Lock()
	defer h.mu.Unlock()
	for _, w := range ws {
		if w.excl {
			if o := h.exclusive[w.key]; o != 0 {
				h.ww++
				if h.first == "" {
					h.first = fmt.Sprintf("key %q held exclusively by worker %d and worker %d", w.key, o-1, id)
				}
			}
			if len(h.shared[w.key]) > 0 {
				h.rw++
				if h.first == "" {
					h.first = fmt.Sprintf("key %q: worker %d got it exclusively while %d readers hold it", w.key, id, len(h.shared[w.key]))
				}
			}
			h.exclusive[w.key] = id + 1
		} else {
			if o := h.exclusive[w.key]; o != 0 {
				h.rw++
				if h.first == "" {
					h.first = fmt.Sprintf("key %q: worker %d got it shared while worker %d holds it exclusively", w.key, id, o-1)
				}
			}
			if h.shared[w.key] == nil {
				h.shared[w.key] = map[int]bool{}
			}
			h.shared[w.key][id] = true
		}
	}
}

func (h *holderTable) leave(id int, ws []want) {
	h.mu.Lock()
	defer h.mu.Unlock()
	for _, w := range ws {
		if w.excl {
			if h.exclusive[w.key] == id+1 {
				delete(h.exclusive, w.key)
			}
		} else {
			delete(h.shared[w.key], id)
		}
	}
}

type spinResult struct {
	Acquired   int64  `json:"acquired"`
	Refused    int64  `json:"refused"`
	WW         int64  `json:"writer_writer_overlaps"`
	RW         int64  `json:"reader_writer_overlaps"`
	First      string `json:"first"`
	LeftLocked int    `json:"left_locked"`
	// Unusable: keys that, at quiescence, a reader or - after a reader came and went - a writer cannot lock
	Unusable int    `json:"unusable_at_quiescence"`
	Pattern  string `json:"pattern"`
}

// spinStress hammers the public SpinLock API exactly the way doTxSync uses it.
func spinStress(seed int64, pattern string, iters int) spinResult {
	sp := utxo.NewSpinLock()
	h := newHolderTable()
	keys := []string{"a", "b"}
	// transactions: reader of K (input ext only), writer of K (input+output ext), spender of an output
	mkReader := func(k string) *pb.Transaction {
		return &pb.Transaction{Txid: []byte("r" + k), TxInputsExt: []*protos.TxInputExt{{Bucket: "vb", Key: []byte(k)}}}
	}
	mkWriter := func(k string, id int) *pb.Transaction {
		return &pb.Transaction{Txid: []byte(fmt.Sprintf("w%s%d", k, id)), TxInputsExt: []*protos.TxInputExt{{Bucket: "vb", Key: []byte(k)}},
			TxOutputsExt: []*protos.TxOutputExt{{Bucket: "vb", Key: []byte(k), Value: []byte("v")}}}
	}
	mkSpender := func(id int) *pb.Transaction {
		return &pb.Transaction{Txid: []byte(fmt.Sprintf("s%d", id)), TxInputs: []*protos.TxInput{{RefTxid: []byte("coin"), RefOffset: 0}},
			TxOutputs: []*protos.TxOutput{{ToAddr: []byte("x"), Amount: []byte{1}}}}
	}
	// reads one key and writes the other (two lock keys: a shared one sorting before an exclusive
	// one, so a loser of the race for the second has already joined the readers of the first)
	mkReadWrite := func(id int) *pb.Transaction {
		return &pb.Transaction{Txid: []byte(fmt.Sprintf("rw%d", id)), TxInputsExt: []*protos.TxInputExt{{Bucket: "vb", Key: []byte("a")}, {Bucket: "vb", Key: []byte("b")}},
			TxOutputsExt: []*protos.TxOutputExt{{Bucket: "vb", Key: []byte("b"), Value: []byte("v")}}}
	}
	var nr, nw, ns, nrw int
	switch pattern {
	case "read-a-write-b":
		nr, nrw = 2, 6
	case "readers+writers":
		nr, nw = 8, 4
	case "writers":
		nw = 6
	case "mixed2keys":
		nr, nw, ns = 4, 4, 3
	case "spenders":
		ns = 6
	}
	var res spinResult
	res.Pattern = pattern
	var wg sync.WaitGroup
	worker := func(id int, mk func(r *rand.Rand) (*pb.Transaction, []want)) {
		defer wg.Done()
		r := rand.New(rand.NewSource(seed*131 + int64(id)))
		for i := 0; i < iters; i++ {
			tx, ws := mk(r)
			lk := sp.ExtractLockKeys(tx)
			got, ok := sp.TryLock(lk)
			if ok {
				h.enter(id, ws)
				if r.Intn(4) == 0 {
					runtime.Gosched()
				}
				h.leave(id, ws)
				atomic.AddInt64(&res.Acquired, 1)
			} else {
				atomic.AddInt64(&res.Refused, 1)
			}
			sp.Unlock(got) // doTxSync defers Unlock(succLockKeys) in both cases
		}
	}
	id := 0
	for i := 0; i < nr; i++ {
		wg.Add(1)
		go worker(id, func(r *rand.Rand) (*pb.Transaction, []want) {
			k := keys[0]
			if pattern == "mixed2keys" {
				k = keys[r.Intn(2)]
			}
			return mkReader(k), []want{{"vb/" + k, false}}
		})
		id++
	}
	for i := 0; i < nw; i++ {
		wg.Add(1)
		me := id
		go worker(id, func(r *rand.Rand) (*pb.Transaction, []want) {
			k := keys[0]
			if pattern == "mixed2keys" {
				k = keys[r.Intn(2)]
			}
			return mkWriter(k, me), []want{{"vb/" + k, true}}
		})
		id++
	}
	for i := 0; i < ns; i++ {
		wg.Add(1)
		me := id
		go worker(id, func(r *rand.Rand) (*pb.Transaction, []want) {
			return mkSpender(me), []want{{"coin_0", true}}
		})
		id++
	}
	for i := 0; i < nrw; i++ {
		wg.Add(1)
		me := id
		go worker(id, func(r *rand.Rand) (*pb.Transaction, []want) {
			return mkReadWrite(me), []want{{"vb/a", false}, {"vb/b", true}}
		})
		id++
	}
	wg.Wait()
	res.WW, res.RW, res.First = h.ww, h.rw, h.first
	// at quiescence nothing may stay locked
	for _, k := range []string{"vb/a", "vb/b", "coin_0"} {
		if sp.IsLocked(k) {
			res.LeftLocked++
		}
	}
	// ... and the locks must still WORK: a reader comes and goes, then a writer must get each key
	// (a reader count that a lost race left too high keeps the entry alive after the next reader)
	if res.LeftLocked == 0 {
		for _, k := range keys {
			rd := sp.ExtractLockKeys(mkReader(k))
			if got, ok := sp.TryLock(rd); !ok {
				res.Unusable++
				sp.Unlock(got)
				continue
			} else {
				sp.Unlock(got)
			}
			wr := sp.ExtractLockKeys(mkWriter(k, 999))
			got, ok := sp.TryLock(wr)
			if !ok {
				res.Unusable++
				if res.First == "" {
					res.First = fmt.Sprintf("after every worker has released and one more reader came and went, a writer of key %q is refused", k)
				}
			}
			sp.Unlock(got)
		}
	}
	return res
}
