package main

import (
	"fmt"
	"math/big"
	"math/rand"
	"os"
	"runtime"
	"strings"
	"sync"
	"time"
	"verif/memkv"

	"github.com/xuperchain/xupercore/bcs/ledger/xledger/state/utxo"
	pb "github.com/xuperchain/xupercore/bcs/ledger/xledger/xldgpb"
	"github.com/xuperchain/xupercore/protos"

	sn "verif/simnode"
)

// Bursts: one long-lived node, many cheap rounds of 4-6 goroutines hitting ONE conflict
// point at the same moment (the narrow windows of the lock protocol need three or more
// overlapping calls and many attempts, which the audited rounds cannot afford).
type burstResult struct {
	Bursts       int `json:"bursts"`
	SpendBursts  int `json:"spend_bursts"`
	KeyBursts    int `json:"key_bursts"`
	SelectBursts int `json:"select_bursts"`
	// WarmSelectBursts: selector bursts on warm caches with selections that fail and release
	WarmSelectBursts int      `json:"warm_select_bursts"`
	Admitted         int      `json:"admitted"`
	Refused          int      `json:"refused"`
	Problems         []string `json:"problems"`
}

func runBursts(seed int64, n int) (res burstResult) {
	problem := func(sig, f string, a ...interface{}) {
		if len(res.Problems) < 5 {
			res.Problems = append(res.Problems, sig+" ## "+fmt.Sprintf(f, a...))
		}
	}
	defer func() {
		if p := recover(); p != nil {
			problem("panic|"+strings.SplitN(fmt.Sprint(p), "\n", 2)[0], "panic: %v", p)
		}
	}()
	rng := rand.New(rand.NewSource(seed))
	cfg := sn.DefaultConfig()
	node, err := sn.NewNode(cfg)
	if err != nil {
		problem("harness|setup", "%v", err)
		return
	}
	defer func() { node.Drop() }()
	// split the money of K0 and K1 into many small outputs (one block)
	var setup []*pb.Transaction
	for _, k := range []*sn.Key{sn.K(0), sn.K(1)} {
		ins, _, tot, err := node.State.SelectUtxos(k.Address, big.NewInt(1000*60), false, false)
		if err != nil {
			problem("harness|setup", "%v", err)
			return
		}
		var outs []sn.Out
		for i := 0; i < 1000; i++ {
			outs = append(outs, sn.Out{To: k.Address, Amount: big.NewInt(60)})
		}
		if rest := new(big.Int).Sub(tot, big.NewInt(1000*60)); rest.Sign() > 0 {
			outs = append(outs, sn.Out{To: k.Address, Amount: rest})
		}
		x, err := sn.BuildTx(sn.TxSpec{Initiator: k.Address, Signers: []*sn.Key{k}, Inputs: ins, Outputs: outs, Nonce: "split-" + k.Name, Timestamp: 5})
		if err != nil || node.State.DoTx(sn.CloneTx(x)) != nil {
			problem("harness|setup", "split failed")
			return
		}
		setup = append(setup, x)
	}
	blk, err := node.FormatBlock(node.StateTip(), 1, sn.K(0), 50, setup, true)
	if err != nil || !node.Confirm(blk).Succ || node.Walk(blk.Blockid, false) != nil {
		problem("harness|setup", "setup block failed")
		return
	}
	splitID := setup[0].Txid
	nextCoin := 0
	burstNo := 0
	hung := false
	fire := func(fs []func() error) (ok int) {
		// every second burst runs with storage-latency jitter (see memkv.SetJitter)
		burstNo++
		if (burstNo/4)%2 == 1 {
			memkv.SetJitter(seed*131+int64(burstNo), 4)
			defer memkv.SetJitter(0, 0)
		}
		var wg sync.WaitGroup
		start := make(chan struct{})
		var mu sync.Mutex
		for _, f := range fs {
			wg.Add(1)
			go func(f func() error) {
				defer wg.Done()
				<-start
				err := f()
				mu.Lock()
				if err == nil {
					ok++
					res.Admitted++
				} else {
					res.Refused++
				}
				mu.Unlock()
			}(f)
		}
		close(start)
		done := make(chan struct{})
		go func() { wg.Wait(); close(done) }()
		select {
		case <-done:
		case <-time.After(120 * time.Second):
			// a burst is a handful of calls that take milliseconds: two minutes without all of them
			// returning means they wait for each other (the statement: no request deadlocks). The
			// goroutine dump goes to the child's stderr, the parent keeps it with the witness.
			buf := make([]byte, 1<<20)
			buf = buf[:runtime.Stack(buf, true)]
			os.Stderr.Write(buf)
			problem("deadlock|burst-did-not-finish", "burst %d: %d concurrent requests did not all return within 120 s", burstNo, len(fs))
			hung = true
		}
		return
	}
	for b := 0; b < n && len(res.Problems) == 0 && !hung; b++ {
		res.Bursts++
		switch b % 5 {
		case 4: // locking selectors on WARM caches, some of them asking for more than there is
			// the spend bursts pay K2 / K3: their pending outputs sit in the output cache, so these
			// selections walk the cache (under the cache's lock) while others - having reserved what
			// they could and found it not enough - give their reservations back
			addr := sn.K(2 + (b/5)%2).Address
			// (the cold-cache bursts restart the node: warm the cache again with fresh payments)
			for w := 0; w < 4 && nextCoin < 1000; w++ {
				in := &protos.TxInput{RefTxid: splitID, RefOffset: int32(nextCoin), FromAddr: []byte(sn.K(0).Address), Amount: big.NewInt(60).Bytes()}
				nextCoin++
				x, err := sn.BuildTx(sn.TxSpec{Initiator: sn.K(0).Address, Signers: []*sn.Key{sn.K(0)}, Inputs: []*protos.TxInput{in},
					Outputs: []sn.Out{{To: addr, Amount: big.NewInt(60)}}, Nonce: fmt.Sprintf("warm%d-%d", b, w), Timestamp: int64(b)})
				if err == nil && node.State.DoTx(sn.CloneTx(x)) == nil {
					res.Admitted++
				}
			}
			var mu sync.Mutex
			var fs []func() error
			for i := 0; i < 6; i++ {
				i := i
				fs = append(fs, func() error {
					var last error
					for c := 0; c < 6; c++ {
						amount := int64(60 * (1 + (i+c)%3))
						if (i+c)%3 == 2 {
							amount = 1 << 40 // never enough: reserves everything it meets, then releases it all
						}
						ins, _, _, err := node.State.SelectUtxos(addr, big.NewInt(amount), true, false)
						last = err
						mu.Lock()
						if err == nil {
							res.Admitted++
						} else {
							res.Refused++
						}
						_ = ins
						mu.Unlock()
					}
					return last
				})
			}
			res.WarmSelectBursts++
			fire(fs)
		case 0: // 4-6 spenders of ONE output of K0
			if nextCoin >= 1000 {
				continue
			}
			in := &protos.TxInput{RefTxid: splitID, RefOffset: int32(nextCoin), FromAddr: []byte(sn.K(0).Address), Amount: big.NewInt(60).Bytes()}
			nextCoin++
			var fs []func() error
			for i := 0; i < 4+rng.Intn(3); i++ {
				x, err := sn.BuildTx(sn.TxSpec{Initiator: sn.K(0).Address, Signers: []*sn.Key{sn.K(0)}, Inputs: []*protos.TxInput{in},
					Outputs: []sn.Out{{To: sn.K(2 + i%2).Address, Amount: big.NewInt(60)}}, Nonce: fmt.Sprintf("sp%d-%d", b, i), Timestamp: int64(b)})
				if err != nil {
					continue
				}
				fs = append(fs, func() error { return node.State.DoTx(sn.CloneTx(x)) })
			}
			res.SpendBursts++
			if got := fire(fs); got > 1 {
				problem("burst|output-spent-by-several-concurrent-transactions", "%d of %d concurrent spenders of one output were admitted", got, len(fs))
			}
		case 1: // 4-6 writers superseding the same version of one key
			key := []byte(fmt.Sprintf("hot%d", b%5))
			var fs []func() error
			for i := 0; i < 4+rng.Intn(3); i++ {
				k := sn.K(i % 4)
				p := (&sn.ProgBuilder{}).Put("vb0", key, []byte(fmt.Sprintf("w%d-%d", b, i)))
				r, err := node.PreExec([]*protos.InvokeRequest{sn.VerifReq(sn.VerifContract, p.String())}, k.Address, []string{k.Address})
				if err != nil {
					continue
				}
				x, err := sn.BuildTx(sn.TxSpec{Initiator: k.Address, Signers: []*sn.Key{k}, Nonce: fmt.Sprintf("kw%d-%d", b, i), Timestamp: int64(b),
					InExt: r.Inputs, OutExt: r.Outputs, Requests: r.Requests})
				if err != nil {
					continue
				}
				fs = append(fs, func() error { return node.State.DoTx(sn.CloneTx(x)) })
			}
			res.KeyBursts++
			if got := fire(fs); got > 1 {
				problem("burst|key-version-superseded-by-several-concurrent-transactions", "%d of %d concurrent writers citing the same version of vb0/%s were admitted", got, len(fs), key)
			}
		case 2, 3: // locking selectors on cold caches
			// a restart clears the temporary selection locks of earlier bursts and empties the caches
			// (selectors then take the table-scan path)
			if err := node.Reopen(); err != nil {
				problem("harness|reopen", "%v", err)
				return
			}
			var mu sync.Mutex
			handed := map[string]int{}
			var fs []func() error
			// 6 selectors x 5 calls each: after the first calls the selectors keep meeting at the
			// next unlocked output of the scan, so one burst holds dozens of contention points
			for i := 0; i < 6; i++ {
				i := i
				fs = append(fs, func() error {
					var last error
					for c := 0; c < 5; c++ {
						ins, _, _, err := node.State.SelectUtxos(sn.K(1).Address, big.NewInt(int64(60*(1+(i+c)%2))), true, false)
						last = err
						mu.Lock()
						for _, in := range ins {
							k := utxo.GenUtxoKey(in.FromAddr, in.RefTxid, in.RefOffset)
							if j, dup := handed[k]; dup {
								problem("select|output-handed-to-two-selectors", "output %s was returned, locked, to selector %d and selector %d", k, j, i)
							}
							handed[k] = i
						}
						mu.Unlock()
					}
					return last
				})
			}
			res.SelectBursts++
			fire(fs)
		}
	}
	if hung {
		return
	}
	// conservation at quiescence: every token is in one place
	sum := new(big.Int)
	it := node.State.GetLDB().NewIteratorWithPrefix([]byte("U"))
	for it.Next() {
		item := &utxo.UtxoItem{}
		if item.Loads(it.Value()) == nil {
			sum.Add(sum, item.Amount)
		}
	}
	it.Release()
	if total := node.State.GetTotal(); sum.Cmp(total) != 0 {
		problem("burst|conservation", "after %d bursts the unspent outputs sum to %s, the total supply is %s", res.Bursts, sum, total)
	}
	return
}
