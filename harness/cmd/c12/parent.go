package main

import (
	"encoding/json"
	"fmt"
	"io/ioutil"
	"os"
	"path/filepath"
	"regexp"
	"sort"
	"strings"
	"sync"
	"time"

	"verif/ev"
)

// files of the state machine, the ledger and the engine glue: a race whose two accesses both sit in
// these is a race of the code under test under the statement's workload (submissions, selections,
// block plays, own blocks). Logging, metrics and the harness itself are left out.
var lockFiles = map[string]bool{"spin_lock.go": true, "utxo.go": true, "utxo_cache.go": true, "xmodel.go": true, "state.go": true,
	"ledger.go": true, "tx_verification.go": true, "meta.go": true, "tx.go": true, "miner.go": true, "chain.go": true, "utxo_item.go": true, "xmodel_cache.go": true, "xmodel_iterator.go": true, "snapshot.go": true, "block_agent.go": true}

func runParent(r *ev.Run) {
	// ---- (1) lock-protocol monitor on the SpinLock API ----
	iters := r.N(40000, 400000)
	for pi, pat := range []string{"readers+writers", "writers", "mixed2keys", "spenders", "read-a-write-b"} {
		c := spawn("spin", pat, iters, r.Seed*10+int64(pi), 10*time.Minute)
		if !judgeChild(r, c, "spin/"+pat) {
			continue
		}
		var sr spinResult
		if json.Unmarshal(c.data, &sr) != nil {
			r.Inconclusive("spin child " + pat + " wrote no result")
			continue
		}
		r.Count("spin.acquired", int(sr.Acquired))
		r.Count("spin.refused", int(sr.Refused))
		r.Case("spin|"+pat, sr.Acquired > 0 && sr.Refused > 0)
		if sr.WW+sr.RW > 0 {
			kind := "exclusive-only"
			if pat == "readers+writers" || pat == "mixed2keys" {
				kind = "with-shared-holders"
			}
			r.Violation("lock-protocol|overlap|"+kind, fmt.Sprintf("SpinLock let incompatible holders in at the same time (pattern %s): %d writer-writer and %d reader-writer overlaps in %d acquisitions; first: %s",
				pat, sr.WW, sr.RW, sr.Acquired, sr.First), sr)
		}
		if sr.LeftLocked > 0 {
			r.Violation("lock-protocol|left-locked", fmt.Sprintf("%d keys are still locked after every worker released (pattern %s)", sr.LeftLocked, pat), sr)
		}
		if sr.Unusable > 0 {
			r.Violation("lock-protocol|key-unusable-at-quiescence", fmt.Sprintf("%d keys cannot be locked although nobody holds them (pattern %s): %s", sr.Unusable, pat, sr.First), sr)
		}
		if pi == 0 {
			r.Sample(sr)
		}
	}
	// ---- (2) free-running rounds on a real node ----
	pats := []string{"same-output", "kv-ww", "kv-rw", "kv-rr", "disjoint", "select", "play", "walk", "walk-walk", "mixed", "balance-cold", "balance-cold", "reservation"}
	per := r.N(25, 600)
	batches := r.N(1, 4)
	for b := 0; b < batches; b++ {
		// the children of one batch are independent processes: four at a time
		results := make([]childRes, len(pats))
		var cwg sync.WaitGroup
		slots := make(chan struct{}, 4)
		for pi, pat := range pats {
			cwg.Add(1)
			go func(pi int, pat string) {
				defer cwg.Done()
				slots <- struct{}{}
				defer func() { <-slots }()
				results[pi] = spawn("rounds", fmt.Sprintf("%s", pat), per/batches+1, r.Seed*100+int64(b*10+pi), 20*time.Minute)
			}(pi, pat)
		}
		cwg.Wait()
		for pi, pat := range pats {
			c := results[pi]
			if !judgeChild(r, c, "rounds/"+pat) {
				continue
			}
			var rr roundsResult
			if json.Unmarshal(c.data, &rr) != nil {
				r.Inconclusive("rounds child " + pat + " wrote no result")
				continue
			}
			for _, rep := range rr.Rounds {
				if rep.Hung {
					r.Violation("deadlock|round-did-not-finish", fmt.Sprintf("a round of pattern %s did not finish within 90 s: requests never returned", pat), rep)
					continue
				}
				r.Case(pat+"|"+rep.Events, rep.Overlap > 0)
				r.Count("rounds", 1)
				r.Count("rounds."+pat, 1)
				r.Count("requests.admitted", rep.Admitted)
				r.Count("requests.refused", rep.Refused)
				r.Count("requests.contention-refusals", rep.Contention)
				r.Count("requests.offered-again-at-quiescence", rep.QuiescentRetries)
				r.Count("rounds.with-overlapping-conflict", btoi(rep.Overlap > 0))
				r.Count("porcupine."+rep.Porcupine, 1)
				if rep.Porcupine == "unknown" {
					r.Inconclusive("porcupine timed out on a round of pattern " + pat)
				}
				for _, p := range rep.Problems {
					parts := strings.SplitN(p, " ## ", 2)
					r.Violation(parts[0], parts[1]+"\nresults: "+strings.Join(rep.Results, " ")+"\nevents: "+rep.Events, rep)
				}
				if b == 0 && pi < 2 && rep.Round == 0 {
					r.Sample(rep)
				}
			}
		}
	}
	// ---- (2b) bursts: many cheap rounds on single conflict points ----
	for bi := 0; bi < r.N(2, 8); bi++ {
		c := spawn("bursts", "x", r.N(450, 1500), r.Seed*1000+int64(bi), 20*time.Minute)
		if !judgeChild(r, c, "bursts") {
			continue
		}
		var br burstResult
		if json.Unmarshal(c.data, &br) != nil {
			r.Inconclusive("bursts child wrote no result")
			continue
		}
		r.Count("bursts", br.Bursts)
		r.Count("bursts.spend", br.SpendBursts)
		r.Count("bursts.key", br.KeyBursts)
		r.Count("bursts.select", br.SelectBursts)
		r.Count("bursts.select-warm", br.WarmSelectBursts)
		r.Count("requests.admitted", br.Admitted)
		r.Count("requests.refused", br.Refused)
		r.Evals(br.Bursts)
		r.Shape(fmt.Sprintf("bursts|%d|%d", bi, br.Admitted))
		for _, p := range br.Problems {
			parts := strings.SplitN(p, " ## ", 2)
			r.Violation(parts[0], parts[1], br)
		}
	}
	// ---- (2b') controlled schedules: the scenarios of (2) under schedules chosen by the monitor ----
	{
		spats := []string{"same-output", "kv-ww", "kv-rw", "kv-rr", "select", "mixed", "balance-cold", "disjoint", "play"}
		nScen, perScen := r.N(3, 24), r.N(48, 240)
		type sres struct {
			pat string
			c   childRes
		}
		out := make(chan sres, len(spats))
		for pi, pat := range spats {
			go func(pi int, pat string) {
				per := perScen
				if pat == "play" {
					per = perScen / 3 // a block play blocks on the state lock: every decision costs a grace period
				}
				out <- sres{pat, spawn("sched", fmt.Sprintf("%s/%d", pat, per), nScen, r.Seed*500+int64(pi), 20*time.Minute)}
			}(pi, pat)
		}
		for range spats {
			sr := <-out
			pat, c := sr.pat, sr.c
			if !judgeChild(r, c, "sched/"+pat) {
				continue
			}
			var rep schedReport
			if json.Unmarshal(c.data, &rep) != nil {
				r.Inconclusive("sched child " + pat + " wrote no result")
				continue
			}
			if rep.Hung {
				r.Violation("deadlock|scheduled-requests-blocked-forever", "under a controlled schedule no request could advance although the controller withheld none: "+rep.HungDetail, rep)
				continue
			}
			r.Evals(rep.Schedules)
			r.Shape(fmt.Sprintf("sched|%s|%d|%d", pat, rep.Distinct, len(rep.Outcomes)))
			r.Count("sched.scenarios", rep.Scenarios)
			r.Count("sched.schedules", rep.Schedules)
			r.Count("sched.schedules."+pat, rep.Schedules)
			r.Count("sched.schedules.systematic", rep.Systematic)
			r.Count("sched.schedules.random", rep.Random)
			r.Count("sched.schedules.distinct", rep.Distinct)
			r.Count("sched.schedules.with-preemption", rep.Preempted)
			r.Count("sched.schedules.fully-audited", rep.FullAudits)
			r.Count("sched.schedules.abandoned", rep.Unfinished)
			r.Count("sched.scenarios.bounded-space-exhausted", rep.Exhausted)
			r.Count("sched.released-request-blocked-on-a-real-lock", rep.Blocked)
			r.Count("sched.contention-refusals", rep.Contention)
			r.Count("sched.outcome-vectors."+pat, len(rep.Outcomes))
			for p, n := range rep.Points {
				r.Count("sched.yield."+p, n)
			}
			if rep.PorcUnknown > 0 {
				r.Inconclusive(fmt.Sprintf("porcupine timed out on %d controlled schedules of pattern %s", rep.PorcUnknown, pat))
			}
			for _, p := range rep.Problems {
				parts := strings.SplitN(p, " ## ", 2)
				if len(parts) < 2 {
					parts = append(parts, "")
				}
				r.Violation(parts[0], parts[1]+"\n(found under a controlled schedule)\n"+strings.Join(rep.Witness, "\n"), rep)
			}
		}
	}
	// ---- (2c) a producing node: own blocks through the real miner while clients submit through the real Chain ----
	for bi := 0; bi < r.N(2, 8); bi++ {
		mode := []string{"producer", "receiver"}[bi%2]
		c := spawn("producer", mode, r.N(30, 80), r.Seed*3000+int64(bi), 20*time.Minute)
		if !judgeChild(r, c, mode) {
			continue
		}
		var pr producerResult
		if json.Unmarshal(c.data, &pr) != nil {
			r.Inconclusive("producer child wrote no result")
			continue
		}
		for _, rep := range pr.Rounds {
			if rep.Hung {
				r.Violation("deadlock|producer-round-did-not-finish", "a round of a producing node under load did not finish within 90 s", rep)
				continue
			}
			r.Case(mode+"|"+rep.Ops+fmt.Sprintf("|%d/%d", rep.Acknowledged, rep.Refused), rep.Blocks > 0 && rep.Acknowledged > 0)
			if mode == "receiver" {
				r.Count("receiver.rounds", 1)
				r.Count("receiver.peer-blocks", rep.Blocks)
				r.Count("receiver.submissions.acknowledged", rep.Acknowledged)
				r.Count("receiver.submissions.refused", rep.Refused)
				for _, p := range rep.Problems {
					parts := strings.SplitN(p, " ## ", 2)
					r.Violation(parts[0], parts[1]+"\nops: "+rep.Ops, rep)
				}
				continue
			}
			r.Count("producer.rounds", 1)
			r.Count("producer.own-blocks", rep.Blocks)
			r.Count("producer.submissions.acknowledged", rep.Acknowledged)
			r.Count("producer.submissions.refused", rep.Refused)
			r.Count("producer.transactions-on-chain", rep.OnChain)
			r.Count("producer.transactions-left-pending", rep.Pending)
			r.Count("producer.queries", rep.Queries)
			for _, p := range rep.Problems {
				parts := strings.SplitN(p, " ## ", 2)
				r.Violation(parts[0], parts[1]+"\nops: "+rep.Ops, rep)
			}
		}
	}
	// ---- (3) race detector reports of all children ----
	raceReports(r)
	r.Floor("rounds", 100)
	r.Floor("rounds.with-overlapping-conflict", 30)
	r.Floor("rounds.reservation", 15)
	r.Floor("bursts.select-warm", 100)
	r.Floor("porcupine.ok", 60)
	r.Floor("spin.acquired", 50000)
	r.Floor("spin.refused", 1000)
	r.Floor("bursts.spend", 150)
	r.Floor("bursts.key", 150)
	r.Floor("bursts.select", 200)
	r.Floor("receiver.rounds", 20)
	r.Floor("sched.schedules", 800)
	r.Floor("sched.schedules.with-preemption", 500)
	r.Floor("sched.schedules.distinct", 600)
	for _, p := range []string{"dotx:before-trylock", "dotx:after-trylock", "dotx:after-pool-check", "dotx:after-kv-check", "dotx:after-apply", "dotx:after-write", "dotx:before-unlock", "select:start", "select:after-cache", "select:table-item", "balance:after-cache-miss"} {
		r.Floor("sched.yield."+p, 50)
	}
	r.Floor("receiver.peer-blocks", 40)
	r.Floor("producer.rounds", 20)
	r.Floor("producer.own-blocks", 40)
	r.Floor("producer.submissions.acknowledged", 200)
	r.Assume("interleavings are those the Go scheduler produces on this machine under the race detector (plus yields inside the workload); schedules finer than that are out of reach")
}

func btoi(b bool) int {
	if b {
		return 1
	}
	return 0
}

// judgeChild turns abnormal child ends into verdicts; returns false when there is no result to read.
func judgeChild(r *ev.Run, c childRes, what string) bool {
	if c.timedOut {
		if parkedOnXupercoreLocks(c.stderr) {
			r.Violation("deadlock|workers-parked-on-xupercore-locks", "child "+what+" hit the watch-dog with goroutines parked on xupercore locks:\n"+tail(c.stderr, 4000), nil)
		} else {
			r.Inconclusive("child " + what + " hit the watch-dog (no evidence of a lock cycle in the goroutine dump)")
		}
		return false
	}
	if c.exit == 66 && len(c.data) > 0 {
		return true // the race detector's exit code: its reports are judged by raceReports, the child's result stands
	}
	if c.exit != 0 {
		switch {
		case strings.Contains(c.stderr, "fatal error: concurrent map"):
			r.Violation("crash|concurrent-map-access", "child "+what+" died with a Go runtime fatal error:\n"+tail(c.stderr, 3000), nil)
		case strings.Contains(c.stderr, "panic:") || strings.Contains(c.stderr, "fatal error:"):
			r.Violation("crash|"+firstLineWith(c.stderr, "panic:", "fatal error:"), "child "+what+" crashed:\n"+tail(c.stderr, 3000), nil)
		default:
			r.Inconclusive(fmt.Sprintf("child %s exited with %d: %s", what, c.exit, tail(c.stderr, 300)))
		}
		return false
	}
	return len(c.data) > 0
}

func parkedOnXupercoreLocks(dump string) bool {
	n := 0
	for _, g := range strings.Split(dump, "\n\n") {
		if (strings.Contains(g, "sync.(*RWMutex)") || strings.Contains(g, "sync.(*Mutex).Lock")) && strings.Contains(g, "xuperchain/xupercore") {
			n++
		}
	}
	return n >= 2
}

func tail(s string, n int) string {
	if len(s) > n {
		return s[len(s)-n:]
	}
	return s
}

func firstLineWith(s string, keys ...string) string {
	for _, ln := range strings.Split(s, "\n") {
		for _, k := range keys {
			if strings.Contains(ln, k) {
				if len(ln) > 100 {
					ln = ln[:100]
				}
				return ln
			}
		}
	}
	return "unknown"
}

var frameRe = regexp.MustCompile(`^\s+(/\S+\.go):(\d+)`)

// raceReports parses the race detector logs of the children, de-duplicates them by the
// pair of innermost xupercore frames and decides which are verdict-relevant.
func raceReports(r *ev.Run) {
	prefix := ""
	for _, f := range strings.Fields(os.Getenv("GORACE")) {
		if strings.HasPrefix(f, "log_path=") {
			prefix = strings.TrimPrefix(f, "log_path=")
		}
	}
	if prefix == "" {
		r.Extra("race_detector", "GORACE log_path not set: race reports were not collected")
		return
	}
	files, _ := filepath.Glob(prefix + ".*")
	pairs := map[string]int{}
	samples := map[string]string{}
	total := 0
	for _, f := range files {
		buf, err := ioutil.ReadFile(f)
		if err != nil {
			continue
		}
		for _, blk := range strings.Split(string(buf), "==================") {
			if !strings.Contains(blk, "WARNING: DATA RACE") {
				continue
			}
			total++
			// the two accesses: sections start with "Write at"/"Read at"/"Previous write at"/"Previous read at"
			var tops []string
			sections := regexp.MustCompile(`(?m)^(Write|Read|Previous write|Previous read|Atomic \w+) .*$`).Split(blk, -1)
			for _, sec := range sections[1:] {
				top := ""
				for _, ln := range strings.Split(sec, "\n") {
					if m := frameRe.FindStringSubmatch(ln); m != nil && strings.Contains(m[1], "xupercore") || (m != nil && strings.HasPrefix(m[1], "/repo/")) {
						top = filepath.Base(m[1]) + ":" + m[2]
						break
					}
					if strings.HasPrefix(ln, "Goroutine ") {
						break
					}
				}
				if top != "" {
					tops = append(tops, top)
				}
				if len(tops) == 2 {
					break
				}
			}
			sort.Strings(tops)
			key := strings.Join(tops, " <-> ")
			pairs[key]++
			if _, ok := samples[key]; !ok {
				samples[key] = tail(blk, 2500)
			}
		}
	}
	list := []string{}
	for k, n := range pairs {
		list = append(list, fmt.Sprintf("%s x%d", k, n))
		files := strings.Split(k, " <-> ")
		relevant := len(files) == 2
		for _, f := range files {
			if !lockFiles[strings.SplitN(f, ":", 2)[0]] {
				relevant = false
			}
		}
		if relevant {
			// strip line numbers for the signature (stable across unrelated edits)
			var fs []string
			for _, f := range files {
				fs = append(fs, strings.SplitN(f, ":", 2)[0])
			}
			r.Violation("race|"+strings.Join(fs, "<->")+"|"+k, "data race between two accesses in the files of the state machine / ledger / engine glue:\n"+samples[k], map[string]string{"pair": k})
		}
	}
	sort.Strings(list)
	r.Extra("race_reports_total", total)
	r.Extra("race_report_pairs", list)
	r.Count("race.reports", total)
}
