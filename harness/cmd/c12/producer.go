package main

// A PRODUCING node under load: the engine's real miner (packBlock, confirmBlockForMiner ->
// PlayForMiner) assembles and confirms own blocks while clients submit transactions through the
// engine's real Chain.SubmitTx (independent transfers, children of pending transactions,
// conflicting pairs, contract calls on shared keys) and ask balances / select outputs. This is
// the most common concurrency of a live node, and the block-play requests of the statement.
//
// At quiescence the result must equal a one-at-a-time order of the same requests:
//   * every submission that was ACKNOWLEDGED is pending or on the chain - exactly once (with own
//     blocks only, nothing can evict an admitted transaction); nothing is on the chain twice;
//   * the admitted transactions are mutually conflict-free and balances / total match them: the
//     node answers like a fresh node that played its main chain and admitted its pool in pool order;
//   * every own block was assembled and confirmed (no request fails or hangs).

import (
	"fmt"
	"math/rand"
	"strings"
	"sync"
	"sync/atomic"
	"time"

	pb "github.com/xuperchain/xupercore/bcs/ledger/xledger/xldgpb"
	"github.com/xuperchain/xupercore/protos"

	"verif/gen"
	"verif/memkv"
	sn "verif/simnode"
)

type producerReport struct {
	Round        int      `json:"round"`
	Blocks       int      `json:"blocks"`
	Acknowledged int      `json:"acknowledged"`
	Refused      int      `json:"refused"`
	OnChain      int      `json:"on_chain"`
	Pending      int      `json:"pending"`
	Queries      int      `json:"queries"`
	Hung         bool     `json:"hung"`
	Problems     []string `json:"problems"`
	Ops          string   `json:"ops"`
}

type producerResult struct {
	Rounds []producerReport `json:"rounds"`
}

func runProducer(seed int64, n int, receiver bool) producerResult {
	var out producerResult
	for i := 0; i < n; i++ {
		if i%2 == 1 {
			memkv.SetJitter(seed*53+int64(i), 5)
		} else {
			memkv.SetJitter(0, 0)
		}
		rep := producerRound(rand.New(rand.NewSource(seed*9176+int64(i))), i, receiver)
		out.Rounds = append(out.Rounds, rep)
		if rep.Hung {
			break
		}
	}
	memkv.SetJitter(0, 0)
	return out
}

func producerRound(rng *rand.Rand, idx int, receiver bool) (rep producerReport) {
	rep.Round = idx
	problem := func(sig, f string, a ...interface{}) {
		rep.Problems = append(rep.Problems, sig+" ## "+fmt.Sprintf(f, a...))
	}
	defer func() {
		if p := recover(); p != nil {
			if _, ok := p.(sn.Inconclusive); ok {
				return
			}
			problem("panic|"+strings.SplitN(fmt.Sprint(p), "\n", 2)[0], "panic: %v", p)
		}
	}()
	o := gen.DefaultOpts()
	o.KVShare = 40
	t, err := gen.NewTree(o)
	if err != nil {
		problem("harness|setup", "%v", err)
		return
	}
	defer t.Drop()
	n, err := t.Author(0)
	if err != nil {
		problem("harness|setup", "%v", err)
		return
	}
	defer n.Drop()
	// a first own block so that several addresses hold several outputs; a preloaded pool
	warm := func(k int) {
		for i := 0; i < k; i++ {
			if x, _, _ := t.GenTx(rng, n); x != nil {
				n.SubmitTx(sn.CloneTx(x))
			}
		}
	}
	warm(6)
	b0, err := n.PackBlock(sn.K(0), 1000)
	if err == nil {
		err = n.ConfirmForMiner(b0)
	}
	if err != nil {
		problem("harness|setup", "first own block: %v", err)
		return
	}
	warm(4)
	// the clients' transactions are assembled up front on the quiescent node (so that conflicting
	// ones cite the same outputs / versions) in independent streams; children are assembled by
	// the clients themselves while the node runs
	type sub struct {
		tx  *pb.Transaction
		ack bool
		err string
	}
	const clients = 4
	streams := make([][]*sub, clients)
	for c := 0; c < clients; c++ {
		for i := 0; i < 5+rng.Intn(4); i++ {
			x, _, _ := t.GenTx(rng, n)
			if x == nil {
				continue
			}
			streams[c] = append(streams[c], &sub{tx: x})
			if rng.Intn(4) == 0 { // the same transaction from another client too
				streams[(c+1)%clients] = append(streams[(c+1)%clients], &sub{tx: sn.CloneTx(x)})
			}
		}
	}
	// receiver mode: the blocks come from a peer (a twin that admits part of the clients' transactions
	// and some of its own) and reach this node through the engine's real Miner.ProcBlock
	var peerBlocks []*pb.InternalBlock
	if receiver {
		peer, err := n.Twin()
		if err != nil {
			problem("harness|setup", "%v", err)
			return
		}
		for i := 0; i < 2+rng.Intn(2); i++ {
			for _, st := range streams {
				for _, s := range st {
					if rng.Intn(3) == 0 {
						peer.SubmitTx(sn.CloneTx(s.tx))
					}
				}
			}
			if x, _, _ := t.GenTx(rng, peer); x != nil {
				peer.SubmitTx(sn.CloneTx(x))
			}
			b, err := peer.PackBlock(sn.K(1), int64(2000+10*i))
			if err == nil {
				err = peer.ConfirmForMiner(b)
			}
			if err != nil {
				peer.Drop()
				problem("harness|setup", "peer block: %v", err)
				return
			}
			peerBlocks = append(peerBlocks, sn.WireBlock(b))
		}
		peer.Drop()
	}
	var wg sync.WaitGroup
	start := make(chan struct{})
	var stop int32
	var ops []string
	var opsMu sync.Mutex
	note := func(s string) { opsMu.Lock(); ops = append(ops, s); opsMu.Unlock() }
	// the producer
	blocks := 2 + rng.Intn(2)
	if receiver {
		blocks = len(peerBlocks)
	}
	var mined []*pb.InternalBlock
	wg.Add(1)
	go func() {
		defer wg.Done()
		<-start
		if receiver {
			for i, b := range peerBlocks {
				if err := n.ProcBlock(b); err != nil {
					problem("receiver|valid-block-refused-under-load", "peer block %d (%d transactions): Miner.ProcBlock failed while submissions were in flight: %v; log %v", i, len(b.Transactions), err, n.Log.Tail(3))
					return
				}
				if string(n.StateTip()) != string(b.Blockid) {
					problem("receiver|accepted-but-not-applied-under-load", "peer block %d was accepted but the state machine is not on it; log %v", i, n.Log.Tail(3))
					return
				}
				mined = append(mined, b)
				note(fmt.Sprintf("recv(%dtx)", len(b.Transactions)-1))
			}
			return
		}
		for i := 0; i < blocks; i++ {
			b, err := n.PackBlock(sn.K(0), int64(2000+10*i))
			if err != nil {
				problem("producer|pack-failed-under-load", "own block %d: packBlock failed while submissions were in flight: %v", i, err)
				return
			}
			if i%2 == 0 {
				time.Sleep(time.Duration(rng.Intn(300)) * time.Microsecond) // the consensus step between packing and confirming
			}
			if err := n.ConfirmForMiner(b); err != nil {
				problem("producer|confirm-failed-under-load", "own block %d (%d transactions): confirmBlockForMiner failed while submissions were in flight: %v; log %v", i, len(b.Transactions), err, n.Log.Tail(3))
				return
			}
			mined = append(mined, sn.WireBlock(b))
			note(fmt.Sprintf("block(%dtx)", len(b.Transactions)-1))
		}
	}()
	for c := 0; c < clients; c++ {
		wg.Add(1)
		go func(c int) {
			defer wg.Done()
			<-start
			for _, s := range streams[c] {
				err := n.SubmitTx(sn.CloneTx(s.tx))
				if err == nil {
					s.ack = true
				} else {
					s.err = err.Error()
				}
			}
		}(c)
	}
	// a client that pre-executes contract calls on the LIVE node (the engine's real Chain.PreExec, next
	// to the blocks), assembles and submits them: each is acknowledged or refused, never half done
	var liveSubs []*sub
	var liveMu sync.Mutex
	wg.Add(1)
	go func() {
		defer wg.Done()
		<-start
		lr := rand.New(rand.NewSource(int64(idx)*31 + 5))
		for i := 0; i < 8; i++ {
			k := sn.K(lr.Intn(6))
			b := gen.Buckets[lr.Intn(len(gen.Buckets))]
			key := []byte(gen.KeyNames[lr.Intn(len(gen.KeyNames))])
			p := &sn.ProgBuilder{}
			switch lr.Intn(3) {
			case 0:
				p.Get(b, key).Put(b, key, []byte(fmt.Sprintf("live%d-%d", idx, i)))
			case 1:
				p.Scan(b, []byte("a"), []byte("z"), -1).Put(b, key, []byte("s"))
			default:
				p.Get(b, key).Del(b, key)
			}
			res, err := n.PreExec([]*protos.InvokeRequest{sn.VerifReq(sn.VerifContract, p.String())}, k.Address, []string{k.Address})
			if err != nil {
				continue
			}
			x, err := sn.BuildTx(sn.TxSpec{Initiator: k.Address, Signers: []*sn.Key{k}, Nonce: fmt.Sprintf("live%d-%d", idx, i), Timestamp: int64(3000 + i),
				InExt: res.Inputs, OutExt: res.Outputs, Requests: res.Requests})
			if err != nil {
				continue
			}
			s := &sub{tx: x}
			if err := n.SubmitTx(sn.CloneTx(x)); err == nil {
				s.ack = true
			} else {
				s.err = err.Error()
			}
			liveMu.Lock()
			liveSubs = append(liveSubs, s)
			liveMu.Unlock()
		}
	}()
	// queries
	var queries int64
	wg.Add(1)
	go func() {
		defer wg.Done()
		<-start
		qr := rand.New(rand.NewSource(int64(idx) + 77))
		for atomic.LoadInt32(&stop) == 0 {
			a := sn.K(qr.Intn(6)).Address
			n.State.GetBalance(a)
			n.State.GetTotal()
			atomic.AddInt64(&queries, 1)
			time.Sleep(20 * time.Microsecond)
		}
	}()
	done := make(chan struct{})
	go func() { wg.Wait(); close(done) }()
	close(start)
	go func() {
		// the query goroutine ends when the others have
		for {
			time.Sleep(2 * time.Millisecond)
			opsMu.Lock()
			fin := len(ops) >= blocks
			opsMu.Unlock()
			if fin || len(rep.Problems) > 0 {
				time.Sleep(5 * time.Millisecond)
				atomic.StoreInt32(&stop, 1)
				return
			}
		}
	}()
	select {
	case <-done:
	case <-time.After(90 * time.Second):
		atomic.StoreInt32(&stop, 1)
		rep.Hung = true
		return
	}
	atomic.StoreInt32(&stop, 1)
	rep.Queries = int(queries)
	rep.Blocks = len(mined)
	rep.Ops = strings.Join(ops, ",")
	if len(rep.Problems) > 0 {
		return
	}
	// ---- quiescent oracles ----
	onChain := map[string]int{}
	var chain []*pb.InternalBlock
	for id := n.Ledger.GetMeta().TipBlockid; ; {
		blk, err := n.Ledger.QueryBlock(id)
		if err != nil {
			problem("producer|main-chain-unreadable", "%v", err)
			return
		}
		if blk.Height == 0 {
			break
		}
		chain = append([]*pb.InternalBlock{blk}, chain...)
		for _, x := range blk.Transactions {
			onChain[string(x.Txid)]++
		}
		id = blk.PreHash
	}
	for id, c := range onChain {
		if c > 1 {
			problem("producer|transaction-twice-on-the-main-chain", "transaction %x is on the node's own chain %d times", id, c)
			return
		}
	}
	pool, _ := n.State.GetUnconfirmedTx(false)
	pending := map[string]bool{}
	for _, x := range pool {
		pending[string(x.Txid)] = true
		if onChain[string(x.Txid)] > 0 {
			problem("producer|confirmed-transaction-still-pending", "transaction %x is in a block of the node's own chain and in its pool", x.Txid)
			return
		}
	}
	ackd := map[string]bool{}
	streams = append(streams, liveSubs)
	for _, st := range streams {
		for _, s := range st {
			if s.ack {
				rep.Acknowledged++
				ackd[string(s.tx.Txid)] = true
			} else {
				rep.Refused++
			}
		}
	}
	for id := range ackd {
		if receiver {
			break // a peer's block may evict an acknowledged transaction that conflicts with it
		}
		if onChain[id] == 0 && !pending[id] {
			problem("producer|acknowledged-transaction-lost", "transaction %x was acknowledged by SubmitTx and is neither pending nor on the chain after the node's own blocks (nothing can evict a transaction from a node that only adds its own blocks)", id)
			return
		}
	}
	rep.OnChain, rep.Pending = len(onChain), len(pool)
	// the node == a fresh node that played the main chain and admitted the pool in pool order
	ref, err := t.Author(0)
	if err != nil {
		return
	}
	defer ref.Drop()
	for _, blk := range chain {
		if st := ref.Confirm(sn.CloneBlock(blk)); !st.Succ {
			problem("producer|own-chain-does-not-replay", "a fresh ledger refuses the node's own block at height %d: %v", blk.Height, st.Error)
			return
		}
		if err := ref.State.Play(blk.Blockid); err != nil {
			problem("producer|own-chain-does-not-replay", "a fresh node cannot play the node's own block at height %d: %v; log %v", blk.Height, err, ref.Log.Tail(3))
			return
		}
	}
	for _, x := range pool {
		if err := ref.State.DoTx(sn.CloneTx(x)); err != nil {
			problem("producer|pool-invalid-on-replayed-chain", "pending transaction %x (pool order, %d pending) is refused by a fresh node that played the node's chain: %v", x.Txid, len(pool), err)
			return
		}
	}
	if d := sn.ObserveOpt(ref, sn.ObsOpt{}).Diff(sn.ObserveOpt(n, sn.ObsOpt{})); len(d) > 0 {
		if len(d) > 6 {
			d = d[:6]
		}
		problem("producer|state-differs-from-replay", "the producing node vs a fresh node that played its chain and admitted its pool: %s", strings.Join(d, " ;; "))
	}
	return
}
