package main

import "syscall"

var syscallSIGQUIT = syscall.SIGQUIT
