package main

import (
	"fmt"
	"math/big"
	"math/rand"
	"sort"
	"strings"
	"sync"
	"sync/atomic"
	"time"
	"verif/memkv"

	"github.com/anishathalye/porcupine"
	"github.com/xuperchain/xupercore/bcs/ledger/xledger/state/utxo"
	pb "github.com/xuperchain/xupercore/bcs/ledger/xledger/xldgpb"
	"github.com/xuperchain/xupercore/protos"

	"verif/gen"
	"verif/hist"
	"verif/refmodel"
	sn "verif/simnode"
)

// one request of a round
type request struct {
	Kind    string // "dotx" | "select" | "play" | "balance"
	ViaWalk bool   // play request carried out by State.Walk
	Tx      *pb.Transaction
	Label   string
	Addr    string
	Amount  int64
	Block   int
	Block2  int // walk-walk: second block, walked to right after the first
	// result
	Call, Ret int64
	Admitted  bool
	Err       string
	ErrClass  string // simnode.ErrClass of the refusal (decided on the error value, not on its text)
	Selected  []string
}

type roundReport struct {
	JitterHits       int64
	PlayHazards      int
	Pattern          string   `json:"pattern"`
	Round            int      `json:"round"`
	Events           string   `json:"events"` // interleaving signature: order of call/return events
	Results          []string `json:"results"`
	Problems         []string `json:"problems"` // "sig ## detail"
	Hung             bool     `json:"hung"`
	Overlap          int      `json:"overlapping_conflicts"`
	Contention       int      `json:"contention_refusals"`
	Admitted         int      `json:"admitted"`
	Refused          int      `json:"refused"`
	Porcupine        string   `json:"porcupine"`
	QuiescentRetries int      `json:"quiescent_retries"`
}

type roundsResult struct {
	Rounds []roundReport `json:"rounds"`
}

func runRounds(seed int64, pattern string, n int) roundsResult {
	var out roundsResult
	for i := 0; i < n; i++ {
		rng := rand.New(rand.NewSource(seed*7907 + int64(i)))
		// every second round runs with storage-latency jitter (yields / microsecond sleeps at the
		// storage operations, the points where a real node waits for the disk)
		if i%2 == 1 {
			memkv.SetJitter(seed*31+int64(i), 5)
		} else {
			memkv.SetJitter(0, 0)
		}
		var rep roundReport
		if pattern == "reservation" {
			rep = reservationRound(rng, i)
		} else {
			rep = oneRound(rng, pattern, i)
		}
		rep.JitterHits = memkv.JitterHits()
		out.Rounds = append(out.Rounds, rep)
		if rep.Hung {
			break // the process is wedged: stop here, the parent sees Hung
		}
	}
	return out
}

var clock int64

func tick() int64 { return atomic.AddInt64(&clock, 1) }

func oneRound(rng *rand.Rand, pattern string, idx int) (rep roundReport) {
	defer func() {
		if p := recover(); p != nil {
			rep.Problems = append(rep.Problems, "panic|"+strings.SplitN(fmt.Sprint(p), "\n", 2)[0]+" ## "+fmt.Sprintf("panic: %v", p))
		}
	}()
	sc := buildScenario(rng, pattern, idx, &rep)
	if sc == nil {
		return
	}
	defer sc.drop()
	if !sc.issueFree(&rep) {
		return
	}
	sc.judge(&rep, true)
	return
}

// scenario is one prepared situation: a node at the base block and the requests built on it.
type scenario struct {
	t         *gen.Tree
	s         *hist.SUT
	reqs      []*request
	baseModel *refmodel.State
	height    int64
	pattern   string
}

func (sc *scenario) drop() {
	if sc == nil {
		return
	}
	if sc.s != nil {
		sc.s.N.Drop()
	}
	sc.t.Drop()
}

// buildScenario prepares the node and the requests of one round (nil when the generator produced
// nothing to run; problems of the preparation go to rep).
func buildScenario(rng *rand.Rand, pattern string, idx int, rep *roundReport) (sc *scenario) {
	rep.Pattern, rep.Round = pattern, idx
	built := false
	problem := func(sig, f string, a ...interface{}) {
		rep.Problems = append(rep.Problems, sig+" ## "+fmt.Sprintf(f, a...))
	}
	defer func() {
		if p := recover(); p != nil {
			problem("panic|"+strings.SplitN(fmt.Sprint(p), "\n", 2)[0], "panic: %v", p)
		}
	}()
	o := gen.DefaultOpts()
	o.Linear = true
	o.MaxBlocks = 4
	t, err := gen.NewTree(o)
	if err != nil {
		problem("harness|setup", "%v", err)
		return
	}
	defer func() {
		if !built {
			t.Drop()
		}
	}()
	nb := 1 + rng.Intn(2)
	for i := 0; i < nb; i++ {
		if _, err := t.AddBlock(rng, len(t.Blocks)-1, 2+rng.Intn(3), nil); err != nil {
			problem("generator|fresh-replay-failed", "%v", err)
			return
		}
	}
	base := len(t.Blocks) - 1
	playBlock := -1
	if pattern == "play" || pattern == "walk" {
		// the block that will be played (or walked to, the engine's path) concurrently: generated on base, shares material with the requests
		if _, err := t.AddBlock(rng, base, 2+rng.Intn(3), nil); err != nil {
			problem("generator|fresh-replay-failed", "%v", err)
			return
		}
		playBlock = len(t.Blocks) - 1
	}
	// walk-walk: two blocks arrive in quick succession; the second confirms transactions (some of
	// them read-only) that sit in the node's pool while the first walk's re-admission still runs
	var preload []*pb.Transaction
	playBlock2 := -1
	if pattern == "walk-walk" {
		a, err := t.Author(base)
		if err != nil {
			problem("harness|setup", "%v", err)
			return
		}
		for i := 0; i < 4+rng.Intn(4); i++ {
			var p *sn.ProgBuilder
			key := []byte(gen.KeyNames[rng.Intn(len(gen.KeyNames))])
			if i%2 == 0 {
				p = (&sn.ProgBuilder{}).Get(gen.Buckets[rng.Intn(2)], key)
			} else {
				p = (&sn.ProgBuilder{}).Get(gen.Buckets[0], key).Scan(gen.Buckets[1], []byte("a"), []byte("g"), -1)
			}
			k := sn.K(rng.Intn(4))
			res, err := a.PreExec([]*protos.InvokeRequest{sn.VerifReq(sn.VerifContract, p.String())}, k.Address, []string{k.Address})
			if err != nil {
				continue
			}
			x, err := sn.BuildTx(sn.TxSpec{Initiator: k.Address, Signers: []*sn.Key{k}, Nonce: fmt.Sprintf("ww%d-%d", idx, i), Timestamp: int64(9000 + i),
				InExt: res.Inputs, OutExt: res.Outputs, Requests: res.Requests})
			if err == nil {
				preload = append(preload, x)
			}
		}
		a.Drop()
		// b1: transfers only (so that the reads stay current), b2 confirms the preloaded transactions
		o2 := t.Opts
		t.Opts.KV = false
		_, err = t.AddBlock(rng, base, 1+rng.Intn(2), nil)
		t.Opts = o2
		if err != nil {
			problem("generator|fresh-replay-failed", "%v", err)
			return
		}
		playBlock = len(t.Blocks) - 1
		if _, err := t.AddBlock(rng, playBlock, 1, preload); err != nil {
			problem("generator|fresh-replay-failed", "%v", err)
			return
		}
		playBlock2 = len(t.Blocks) - 1
	}
	s, err := hist.NewSUT(t)
	if err != nil {
		problem("harness|setup", "%v", err)
		return
	}
	defer func() {
		if !built {
			s.N.Drop()
		}
	}()
	for i := 1; i <= base; i++ {
		s.Confirm(i)
	}
	if op := s.Walk(base, false); op.Result != "ok" {
		problem("harness|setup", "walk to base failed: %s", op.Result)
		return
	}
	if playBlock2 > 0 {
		// the transactions are pending on this node before the blocks that confirm them arrive
		for _, x := range preload {
			if err := s.N.State.DoTx(sn.CloneTx(x)); err != nil {
				problem("harness|setup", "preload not admitted: %v", err)
				return
			}
		}
	}
	if playBlock > 0 {
		s.Confirm(playBlock)
	}
	if playBlock2 > 0 {
		s.Confirm(playBlock2)
	}
	// ---- build the requests on the quiescent state ----
	var reqs []*request
	coldStart := false
	addTx := func(x *pb.Transaction, label string) {
		if x != nil {
			reqs = append(reqs, &request{Kind: "dotx", Tx: x, Label: label})
		}
	}
	fam := func(name string, copies int) {
		for c := 0; c < copies; c++ {
			for i, x := range s.Family(rng, name) {
				if x != nil {
					addTx(x, fmt.Sprintf("%s#%d", name, i))
				}
			}
		}
	}
	switch pattern {
	case "same-output":
		fam("double-spend", 1+rng.Intn(2))
	case "kv-ww":
		fam("kv-ww", 1)
		if rng.Intn(2) == 0 {
			fam("kv-ww", 1) // another key, probably
		}
	case "kv-rw":
		fam("kv-rw", 2)
	case "kv-rr":
		fam("kv-rr", 2)
	case "disjoint":
		for i := 0; i < 4; i++ {
			x, _, _ := t.GenTx(rng, s.N)
			addTx(x, "honest")
		}
	case "select":
		addr := sn.K(rng.Intn(4)).Address
		for i := 0; i < 3; i++ {
			reqs = append(reqs, &request{Kind: "select", Addr: addr, Amount: int64(1 + rng.Intn(300)), Label: "select"})
		}
		fam("double-spend", 1)
		reqs = append(reqs, &request{Kind: "balance", Addr: addr, Label: "balance"})
	case "walk-walk":
		fam("double-spend", 1)
		reqs = append(reqs, &request{Kind: "play", Block: playBlock, Block2: playBlock2, Label: pattern, ViaWalk: true})
		reqs = append(reqs, &request{Kind: "balance", Addr: sn.K(0).Address, Label: "balance"})
	case "play", "walk":
		// submit (some of) the block's own transactions and conflicting ones while it is played
		for _, x := range t.Blocks[playBlock].Block.Transactions {
			if !x.Coinbase && rng.Intn(2) == 0 {
				c := sn.CloneTx(x)
				c.Blockid = nil
				addTx(c, "block-tx")
			}
		}
		fam("double-spend", 1)
		fam("kv-ww", 1)
		reqs = append(reqs, &request{Kind: "play", Block: playBlock, Label: pattern, ViaWalk: pattern == "walk"})
		reqs = append(reqs, &request{Kind: "balance", Addr: sn.K(0).Address, Label: "balance"})
	case "balance-cold":
		// transfers towards one address while observers ask its balance on cold caches
		to := sn.K(rng.Intn(4))
		for i := 0; i < 4; i++ {
			from := sn.K((i + 1) % 4)
			ins, _, tot, err := s.N.State.SelectUtxos(from.Address, big.NewInt(int64(1+rng.Intn(40))), true, false)
			if err != nil {
				continue
			}
			x, err := sn.BuildTx(sn.TxSpec{Initiator: from.Address, Signers: []*sn.Key{from}, Inputs: ins,
				Outputs: []sn.Out{{To: to.Address, Amount: tot}}, Nonce: fmt.Sprintf("bal%d-%d", idx, i), Timestamp: int64(9000 + i)})
			if err == nil {
				addTx(x, "pay")
			}
		}
		for i := 0; i < 3; i++ {
			reqs = append(reqs, &request{Kind: "balance", Addr: to.Address, Label: "balance"})
		}
		coldStart = true
	case "mixed":
		fam("double-spend", 1)
		fam("kv-rw", 1)
		fam("diamond", 1)
		reqs = append(reqs, &request{Kind: "select", Addr: sn.K(rng.Intn(4)).Address, Amount: 50, Label: "select"})
	}
	if len(reqs) < 2 {
		return
	}
	if len(reqs) > 8 {
		reqs = reqs[:8]
	}
	rng.Shuffle(len(reqs), func(i, j int) { reqs[i], reqs[j] = reqs[j], reqs[i] })
	if coldStart {
		if op := s.Reopen(); op.Result != "ok" {
			problem("harness|setup", "reopen failed: %s", op.Result)
			return
		}
	}
	baseModel, err := s.ModelAt(base)
	if err != nil {
		problem("model|fresh-node-accepted-inadmissible-tx", "%v", err)
		return
	}
	height := s.N.LedgerHeight()
	built = true
	return &scenario{t: t, s: s, reqs: reqs, baseModel: baseModel, height: height, pattern: pattern}
}

// issueFree lets every request run in a goroutine of its own, all released at once (false: the
// round did not finish within the watchdog period).
func (sc *scenario) issueFree(rep *roundReport) bool {
	reqs := sc.reqs
	// ---- issue them concurrently ----
	var wg sync.WaitGroup
	start := make(chan struct{})
	var evMu sync.Mutex
	var events []string
	note := func(s string) { evMu.Lock(); events = append(events, s); evMu.Unlock() }
	for i, rq := range reqs {
		wg.Add(1)
		go func(i int, rq *request) {
			defer wg.Done()
			<-start
			sc.perform(i, rq, note)
		}(i, rq)
	}
	done := make(chan struct{})
	go func() { wg.Wait(); close(done) }()
	close(start)
	select {
	case <-done:
	case <-time.After(90 * time.Second):
		rep.Hung = true
		return false
	}
	rep.Events = strings.Join(events, "")
	for i, rq := range reqs {
		res := "ok"
		if !rq.Admitted {
			res = rq.Err
			rep.Refused++
		} else {
			rep.Admitted++
		}
		rep.Results = append(rep.Results, fmt.Sprintf("%d:%s:%s=%s", i, rq.Kind, rq.Label, res))
	}
	return true
}

// perform carries out one request against the node and records call / return ticks and result.
func (sc *scenario) perform(i int, rq *request, note func(string)) {
	s, t := sc.s, sc.t
	rq.Call = tick()
	note(fmt.Sprintf("c%d", i))
	switch rq.Kind {
	case "dotx":
		err := s.N.State.DoTx(sn.CloneTx(rq.Tx))
		rq.Admitted = err == nil
		if err != nil {
			rq.Err = err.Error()
			rq.ErrClass = sn.ErrClass(err)
		}
	case "select":
		ins, _, _, err := s.N.State.SelectUtxos(rq.Addr, big.NewInt(rq.Amount), true, false)
		rq.Admitted = err == nil
		if err != nil {
			rq.Err = err.Error()
		}
		for _, in := range ins {
			rq.Selected = append(rq.Selected, utxo.GenUtxoKey(in.FromAddr, in.RefTxid, in.RefOffset))
		}
	case "play":
		var err error
		if rq.ViaWalk && rq.Block2 > 0 {
			err = s.N.WalkBackToBack(t.Blocks[rq.Block].ID, t.Blocks[rq.Block2].ID)
		} else if rq.ViaWalk {
			// Walk rolls the pool back, applies the block and re-admits the pool in a goroutine of
			// its own, which then runs next to the client submissions; Node.Walk returns when
			// that recovery has finished
			err = s.N.Walk(t.Blocks[rq.Block].ID, false)
		} else {
			err = s.N.State.Play(t.Blocks[rq.Block].ID)
		}
		rq.Admitted = err == nil
		if err != nil {
			rq.Err = err.Error()
		}
	case "balance":
		for k := 0; k < 3; k++ {
			s.N.State.GetBalance(rq.Addr)
			s.N.State.GetTotal()
		}
		rq.Admitted = true
	}
	note(fmt.Sprintf("r%d", i))
	rq.Ret = tick()
}

// judge runs the oracles over the results of a finished round; full adds the history-free
// replay and the reopened twin to the statement-level model at quiescence.
func (sc *scenario) judge(rep *roundReport, full bool) {
	s, t, reqs, pattern, baseModel, height := sc.s, sc.t, sc.reqs, sc.pattern, sc.baseModel, sc.height
	_ = t
	problem := func(sig, f string, a ...interface{}) {
		rep.Problems = append(rep.Problems, sig+" ## "+fmt.Sprintf(f, a...))
	}
	// ---- oracles ----
	// (a) contention refusals must overlap a conflicting call
	conflicts := func(a, b *pb.Transaction) bool {
		ka, kb := lockKeys(a), lockKeys(b)
		for k, ea := range ka {
			if eb, ok := kb[k]; ok && (ea || eb) {
				return true
			}
		}
		return false
	}
	for i, rq := range reqs {
		if rq.Kind != "dotx" {
			continue
		}
		for j, other := range reqs {
			if j != i && other.Kind == "dotx" && other.Call < rq.Ret && rq.Call < other.Ret && conflicts(rq.Tx, other.Tx) {
				rep.Overlap++
				break
			}
		}
		if !rq.Admitted && rq.ErrClass == "contention" {
			rep.Contention++
			justified := false
			for j, other := range reqs {
				if j == i {
					continue
				}
				overl := other.Call < rq.Ret && rq.Call < other.Ret
				if overl && (other.Kind == "play" || (other.Kind == "dotx" && conflicts(rq.Tx, other.Tx))) {
					justified = true
				}
			}
			if !justified {
				problem("serial|contention-refusal-without-overlap", "request %d (%s) was refused for lock contention but no conflicting call overlapped it", i, rq.Label)
			}
		}
	}
	// (b) outputs handed out by locking selections are pairwise disjoint
	seen := map[string]int{}
	for i, rq := range reqs {
		for _, k := range rq.Selected {
			if j, dup := seen[k]; dup {
				problem("select|output-handed-to-two-selectors", "output %s was returned to selector %d and selector %d", k, j, i)
			}
			seen[k] = i
		}
	}
	// (b2) the block played concurrently is valid on the state's tip: in every one-at-a-time order
	// Play succeeds (before the submissions: they are then refused; after them: conflicting pool
	// transactions are evicted) - except under the recorded PlayAndRepost findings, whose
	// structural precondition is evaluated on the pool the round left behind
	for _, rq := range reqs {
		if rq.Kind == "play" && !rq.Admitted && rq.ViaWalk {
			problem("walk|valid-block-refused-under-concurrency", "Walk to a valid block on the state's tip failed (%s) while submissions were in flight", rq.Err)
		} else if rq.Kind == "play" && !rq.Admitted {
			if s.PlayHazard(rq.Block) {
				rep.PlayHazards++
			} else {
				problem("play|valid-block-refused-under-concurrency", "Play of a valid block on the state's tip failed (%s) while submissions were in flight; no pool transaction writes a key an unseen block transaction reads", rq.Err)
			}
		}
	}
	// (c) a sequential order must explain the DoTx results (porcupine)
	if pattern != "play" && pattern != "walk" && pattern != "walk-walk" {
		rep.Porcupine = checkLinearizable(reqs, baseModel, height, problem)
	}
	// (d) quiescent-state auditors
	hist.CanonSelect = false
	hist.TwinSelect = false // temporary selection locks are allowed to outlive the round
	op := hist.Op{Kind: "concurrent-" + pattern}
	auditors := []hist.Auditor{hist.ModelAuditor}
	if full {
		auditors = append(auditors, hist.CanonAuditor, hist.TwinAuditor)
	}
	for _, a := range auditors {
		if ps := a(s, op); len(ps) > 0 {
			for _, p := range ps {
				problem(p.Sig, "%s", p.Detail)
			}
			break
		}
	}
	// (e) at quiescence no key lock is held: the lock-contention refusal is only possible while
	// another admission is in flight. Every transaction of the round is offered again, one at a
	// time (admitted ones are refused as known, conflicting ones for their spent inputs / stale
	// versions): a contention refusal now means a finished request left a lock behind.
	if len(rep.Problems) == 0 {
		s.N.WaitQuiescent()
		for i, rq := range reqs {
			if rq.Kind != "dotx" || rq.Tx == nil {
				continue
			}
			rep.QuiescentRetries++
			if err := s.N.State.DoTx(sn.CloneTx(rq.Tx)); sn.IsContention(err) {
				problem("serial|contention-refusal-at-quiescence", "request %d (%s), offered again after every request of the round had returned, is refused for lock contention: a finished request left a key lock behind", i, rq.Label)
				break
			}
		}
	}
	return
}

func lockKeys(x *pb.Transaction) map[string]bool {
	m := map[string]bool{}
	for _, in := range x.TxInputs {
		m[fmt.Sprintf("%x_%d", in.RefTxid, in.RefOffset)] = true
	}
	for off := range x.TxOutputs { // a transaction also locks its own outputs exclusively
		m[fmt.Sprintf("%x_%d", x.Txid, off)] = true
	}
	read := map[string]bool{}
	for _, in := range x.TxInputsExt {
		read[in.Bucket+"/"+string(in.Key)] = true
	}
	for _, out := range x.TxOutputsExt {
		k := out.Bucket + "/" + string(out.Key)
		delete(read, k)
		m[k] = true
	}
	for k := range read {
		m[k] = false
	}
	return m
}

type linIn struct{ idx int }
type linOut struct {
	admitted   bool
	contention bool
	already    bool
}

// checkLinearizable asks porcupine for a sequential order of the DoTx requests in which
// every admitted one is admissible at its point and every (non-contention) refusal is
// justified by the statement-level model.
func checkLinearizable(reqs []*request, base *refmodel.State, height int64, problem func(string, string, ...interface{})) string {
	var ops []porcupine.Operation
	txs := map[int]*pb.Transaction{}
	for i, rq := range reqs {
		if rq.Kind != "dotx" {
			continue
		}
		txs[i] = rq.Tx
		ops = append(ops, porcupine.Operation{ClientId: len(ops), Input: linIn{i}, Call: rq.Call,
			Output: linOut{admitted: rq.Admitted, contention: rq.ErrClass == "contention",
				already: rq.ErrClass == "already-pending"}, Return: rq.Ret})
	}
	if len(ops) == 0 {
		return "none"
	}
	cache := map[string]*refmodel.State{"": base}
	stateOf := func(key string) *refmodel.State {
		if m, ok := cache[key]; ok {
			return m
		}
		m := base.Copy()
		for _, f := range strings.Split(key, ",") {
			if f == "" {
				continue
			}
			var i int
			fmt.Sscanf(f, "%d", &i)
			m.Apply(txs[i], "")
		}
		cache[key] = m
		return m
	}
	model := porcupine.Model{
		Init: func() interface{} { return "" },
		Step: func(st, in, out interface{}) (bool, interface{}) {
			key := st.(string)
			i := in.(linIn).idx
			o := out.(linOut)
			m := stateOf(key)
			adm := m.Check(txs[i], height) == nil
			if o.admitted {
				if !adm {
					return false, st
				}
				if key == "" {
					return true, fmt.Sprint(i)
				}
				return true, key + "," + fmt.Sprint(i)
			}
			if o.contention || o.already {
				return true, st
			}
			return !adm, st
		},
		Equal: func(a, b interface{}) bool {
			// same set of applied transactions = same state (order of independent ones is irrelevant)
			x := strings.Split(a.(string), ",")
			y := strings.Split(b.(string), ",")
			sort.Strings(x)
			sort.Strings(y)
			return strings.Join(x, ",") == strings.Join(y, ",")
		},
	}
	res := porcupine.CheckOperationsTimeout(model, ops, 20*time.Second)
	switch res {
	case porcupine.Ok:
		return "ok"
	case porcupine.Illegal:
		var rs []string
		for _, rq := range reqs {
			if rq.Kind == "dotx" {
				rs = append(rs, fmt.Sprintf("%s[%d,%d]=%v/%s", rq.Label, rq.Call, rq.Ret, rq.Admitted, rq.Err))
			}
		}
		problem("serial|no-sequential-order-explains-results", "no one-at-a-time order of the requests yields these results: %s", strings.Join(rs, " "))
		return "illegal"
	default:
		return "unknown"
	}
}

// reservationRound: "an output selected with locking is never handed to two selectors" also has a
// one-at-a-time reading. Wallet A reserves outputs of an address through SelectUtxos(lock); then
// other requests that merely NAME a reserved output come and go - a transaction refused by the
// admission checks (one of its other inputs is already spent; unbalanced), a transaction refused
// as a double spend, a non-locking selection - and further locking selections for the same
// address run, some of them concurrently with those requests. No later locking selection may
// return an output A still holds, and A's own transaction must be admitted in the end.
func reservationRound(rng *rand.Rand, idx int) (rep roundReport) {
	rep.Pattern, rep.Round = "reservation", idx
	problem := func(sig, f string, a ...interface{}) {
		rep.Problems = append(rep.Problems, sig+" ## "+fmt.Sprintf(f, a...))
	}
	defer func() {
		if p := recover(); p != nil {
			problem("panic|"+strings.SplitN(fmt.Sprint(p), "\n", 2)[0], "panic: %v", p)
		}
	}()
	o := gen.DefaultOpts()
	o.Linear = true
	o.MaxBlocks = 4
	o.KV = false
	o.Frozen = false
	t, err := gen.NewTree(o)
	if err != nil {
		problem("harness|setup", "%v", err)
		return
	}
	defer t.Drop()
	for i := 0; i < 2; i++ {
		if _, err := t.AddBlock(rng, len(t.Blocks)-1, 3+rng.Intn(3), nil); err != nil {
			problem("generator|fresh-replay-failed", "%v", err)
			return
		}
	}
	base := len(t.Blocks) - 1
	s, err := hist.NewSUT(t)
	if err != nil {
		problem("harness|setup", "%v", err)
		return
	}
	defer func() { s.N.Drop() }()
	for i := 1; i <= base; i++ {
		s.Confirm(i)
	}
	if op := s.Walk(base, false); op.Result != "ok" {
		problem("harness|setup", "walk to base failed: %s", op.Result)
		return
	}
	if idx%2 == 1 {
		// cold caches: selections go through the table scan
		if op := s.Reopen(); op.Result != "ok" {
			problem("harness|setup", "reopen failed: %s", op.Result)
			return
		}
	}
	ai := rng.Intn(3)
	A, B := sn.K(ai), sn.K((ai+1)%3)
	keyOf := func(in *protos.TxInput) string { return utxo.GenUtxoKey(in.FromAddr, in.RefTxid, in.RefOffset) }
	// wallet A reserves
	insA, _, totA, err := s.N.State.SelectUtxos(A.Address, big.NewInt(int64(1+rng.Intn(30))), true, false)
	if err != nil || len(insA) == 0 {
		return
	}
	held := map[string]bool{}
	for _, in := range insA {
		held[keyOf(in)] = true
	}
	rep.Events = fmt.Sprintf("held%d", len(insA))
	// an output of B, and a transaction that spends it (admitted first)
	insB, _, totB, err := s.N.State.SelectUtxos(B.Address, big.NewInt(1), false, false)
	if err != nil || len(insB) == 0 {
		return
	}
	spendB, err := sn.BuildTx(sn.TxSpec{Initiator: B.Address, Signers: []*sn.Key{B}, Inputs: insB,
		Outputs: []sn.Out{{To: B.Address, Amount: totB}}, Nonce: fmt.Sprintf("resB%d", idx), Timestamp: 9100})
	if err != nil {
		return
	}
	if err := s.N.State.DoTx(sn.CloneTx(spendB)); err != nil {
		problem("harness|setup", "spendB not admitted: %v", err)
		return
	}
	// requests that merely name A's reserved output
	sum := new(big.Int).Add(new(big.Int).SetBytes(insA[0].Amount), totB)
	joint, _ := sn.BuildTx(sn.TxSpec{Initiator: A.Address, Signers: []*sn.Key{A, B}, Inputs: append([]*protos.TxInput{insA[0]}, insB...),
		Outputs: []sn.Out{{To: A.Address, Amount: sum}}, Nonce: fmt.Sprintf("resJ%d", idx), Timestamp: 9101}) // B's output is gone: refused by the admission checks
	unbalanced, _ := sn.BuildTx(sn.TxSpec{Initiator: A.Address, Signers: []*sn.Key{A}, Inputs: insA[:1],
		Outputs: []sn.Out{{To: B.Address, Amount: new(big.Int).Add(new(big.Int).SetBytes(insA[0].Amount), big.NewInt(5))}}, Nonce: fmt.Sprintf("resU%d", idx), Timestamp: 9102})
	var others []*pb.Transaction
	for _, x := range []*pb.Transaction{joint, unbalanced} {
		if x != nil {
			others = append(others, x)
		}
	}
	// run them next to two further locking selections and a non-locking one
	type selRes struct {
		keys []string
		err  error
	}
	sels := make([]selRes, 3)
	var wg sync.WaitGroup
	start := make(chan struct{})
	concurrent := idx%3 != 0
	run := func(f func()) {
		if concurrent {
			wg.Add(1)
			go func() { defer wg.Done(); <-start; f() }()
		} else {
			f()
		}
	}
	refused := 0
	var refMu sync.Mutex
	for _, x := range others {
		x := x
		run(func() {
			if err := s.N.State.DoTx(sn.CloneTx(x)); err != nil {
				refMu.Lock()
				refused++
				refMu.Unlock()
			}
		})
	}
	for i := range sels {
		i := i
		run(func() {
			lock := i < 2
			ins, _, _, err := s.N.State.SelectUtxos(A.Address, new(big.Int).Add(totA, big.NewInt(int64(1+i))), lock, false)
			sels[i].err = err
			if lock {
				for _, in := range ins {
					sels[i].keys = append(sels[i].keys, keyOf(in))
				}
			}
		})
	}
	if concurrent {
		done := make(chan struct{})
		go func() { wg.Wait(); close(done) }()
		close(start)
		select {
		case <-done:
		case <-time.After(90 * time.Second):
			rep.Hung = true
			return
		}
	}
	rep.Refused = refused
	// a last locking selection after everything has returned
	last, _, _, _ := s.N.State.SelectUtxos(A.Address, new(big.Int).Add(totA, big.NewInt(7)), true, false)
	var lastKeys []string
	for _, in := range last {
		lastKeys = append(lastKeys, keyOf(in))
	}
	seen := map[string]string{}
	for k := range held {
		seen[k] = "wallet A (first selection)"
	}
	check := func(who string, keys []string) {
		for _, k := range keys {
			if prev, dup := seen[k]; dup {
				problem("select|reserved-output-handed-out-again", "output %s, reserved by %s and never released by its holder, was returned to %s (%d transactions naming reserved outputs were refused in between)", k, prev, who, refused)
			}
			seen[k] = who
		}
	}
	for i, sr := range sels {
		check(fmt.Sprintf("locking selection %d", i), sr.keys)
	}
	check("the final locking selection", lastKeys)
	rep.Overlap = btoiLocal(concurrent)
	// wallet A now submits what it reserved the outputs for
	own, err := sn.BuildTx(sn.TxSpec{Initiator: A.Address, Signers: []*sn.Key{A}, Inputs: insA,
		Outputs: []sn.Out{{To: B.Address, Amount: totA}}, Nonce: fmt.Sprintf("resA%d", idx), Timestamp: 9103})
	if err == nil {
		if derr := s.N.State.DoTx(sn.CloneTx(own)); derr != nil {
			problem("select|holder-of-reservation-refused", "wallet A's own transaction over the outputs it had reserved is refused: %v", derr)
		} else {
			rep.Admitted++
		}
	}
	rep.Results = append(rep.Results, fmt.Sprintf("held=%d refused=%d concurrent=%v", len(insA), refused, concurrent))
	// quiescent-state auditors
	if len(rep.Problems) == 0 {
		hist.CanonSelect = false
		hist.TwinSelect = false
		op := hist.Op{Kind: "reservation"}
		for _, a := range []hist.Auditor{hist.ModelAuditor, hist.TwinAuditor} {
			if ps := a(s, op); len(ps) > 0 {
				for _, p := range ps {
					problem(p.Sig, "%s", p.Detail)
				}
				break
			}
		}
	}
	rep.Porcupine = "none"
	return
}

func btoiLocal(b bool) int {
	if b {
		return 1
	}
	return 0
}
