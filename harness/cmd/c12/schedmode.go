package main

import (
	"fmt"
	"math/rand"
	"strings"
	"time"

	"github.com/xuperchain/xupercore/bcs/ledger/xledger/state/utxo"

	"verif/memkv"
	"verif/sched"
)

// ---- controlled schedules ----
//
// The free-running rounds and bursts see the interleavings the Go scheduler happens to produce.
// Here the same scenarios (same builders, same oracles) run under schedules the monitor chooses:
// the admission path, output selection and the uncached balance query call a yield hook between
// their atomic steps (build tag verif; repository commit "verif hook: yield points ..."), a
// goroutine of a request parks there until the controller releases it, and exactly one request
// advances between two decisions. For every prepared scenario the schedules with at most
// `bound` preemptions are enumerated depth-first (iterative context bounding) up to a budget,
// then random schedules fill the rest. Every schedule starts from a fresh copy of the prepared
// node (SUT.Fork) and is judged by the oracles of the free-running rounds.

type schedReport struct {
	Pattern     string         `json:"pattern"`
	Scenarios   int            `json:"scenarios"`
	Schedules   int            `json:"schedules"`
	Systematic  int            `json:"systematic"`
	Random      int            `json:"random"`
	Exhausted   int            `json:"scenarios_whose_bounded_space_was_exhausted"`
	Distinct    int            `json:"distinct_schedules"`
	Preempted   int            `json:"schedules_with_preemption"`
	Blocked     int            `json:"times_a_released_request_was_blocked_on_a_real_lock"`
	Points      map[string]int `json:"yield_points"`
	Outcomes    map[string]int `json:"outcomes"`
	Contention  int            `json:"contention_refusals"`
	Problems    []string       `json:"problems"`
	Witness     []string       `json:"witness"`
	Hung        bool           `json:"hung"`
	HungDetail  string         `json:"hung_detail"`
	FullAudits  int            `json:"full_audits"`
	MaxSteps    int            `json:"longest_schedule"`
	Unfinished  int            `json:"abandoned_schedules"`
	PorcUnknown int            `json:"porcupine_unknown"`
}

func runSched(seed int64, pattern string, nScen int, perScen int) schedReport {
	rep := schedReport{Pattern: pattern, Points: map[string]int{}, Outcomes: map[string]int{}}
	memkv.SetJitter(0, 0)
	distinct := map[string]bool{}
	bound := 2
	for si := 0; si < nScen && len(rep.Problems) == 0 && !rep.Hung; si++ {
		rng := rand.New(rand.NewSource(seed*104729 + int64(si)))
		var setup roundReport
		sc := buildScenario(rng, pattern, si, &setup)
		if len(setup.Problems) > 0 {
			rep.Problems = append(rep.Problems, setup.Problems...)
		}
		if sc == nil {
			continue
		}
		// the controller drives few goroutines well; keep the requests that matter
		if len(sc.reqs) > 4 {
			sc.reqs = sc.reqs[:4]
		}
		rep.Scenarios++
		ex := sched.NewExplorer(bound)
		srng := rand.New(rand.NewSource(seed*7919 + int64(si)))
		for k := 0; k < perScen && len(rep.Problems) == 0 && !rep.Hung; k++ {
			var prefix []int
			systematic := false
			if k < perScen*3/4 {
				if p, ok := ex.Next(); ok {
					prefix, systematic = p, true
				} else if k > 0 && ex.Pending() == 0 {
					// bounded space exhausted before the budget: the rest are random schedules
				}
			}
			var choose sched.Chooser
			if systematic {
				choose = sched.Prefix(prefix)
			} else {
				// random schedule: at every decision switch with probability 1/3
				choose = func(step int, runnable []int, last int) int {
					for _, r := range runnable {
						if r == last && srng.Intn(3) != 0 {
							return r
						}
					}
					return runnable[srng.Intn(len(runnable))]
				}
			}
			one, ctl, ok := sc.runScheduled(choose, k%8 == 7)
			rep.Schedules++
			if systematic {
				rep.Systematic++
				ex.Feed(ctl.Trace, len(prefix))
			} else {
				rep.Random++
			}
			for p, n := range ctl.Points {
				rep.Points[p] += n
			}
			rep.Blocked += ctl.Blocked
			if len(ctl.Trace) > rep.MaxSteps {
				rep.MaxSteps = len(ctl.Trace)
			}
			if sched.Preemptions(ctl.Trace) > 0 {
				rep.Preempted++
			}
			sig := fmt.Sprintf("%d|%s", si, ctl.Signature())
			if !distinct[sig] {
				distinct[sig] = true
				rep.Distinct++
			}
			if !ok {
				if ctl.Hung {
					rep.Hung = true
					rep.HungDetail = fmt.Sprintf("scenario %d schedule %s: no request could advance for 60 s", si, ctl.Signature())
				} else {
					rep.Unfinished++
				}
				continue
			}
			if k%8 == 7 {
				rep.FullAudits++
			}
			rep.Contention += one.Contention
			if one.Porcupine == "unknown" {
				rep.PorcUnknown++
			}
			var outcome []string
			for _, r := range one.Results {
				f := strings.SplitN(r, "=", 2)
				o := "ok"
				if len(f) == 2 && f[1] != "ok" {
					o = "refused"
				}
				outcome = append(outcome, o)
			}
			rep.Outcomes[strings.Join(outcome, ",")]++
			if len(one.Problems) > 0 {
				rep.Problems = append(rep.Problems, one.Problems...)
				rep.Witness = append(rep.Witness, fmt.Sprintf("pattern %s scenario %d schedule %s (systematic=%v prefix=%v)", pattern, si, ctl.Signature(), systematic, prefix))
				rep.Witness = append(rep.Witness, one.Results...)
				for i, st := range ctl.Trace {
					rep.Witness = append(rep.Witness, fmt.Sprintf("  step %d: request %d leaves %s (runnable %v)", i, st.Chosen, st.Point, st.Runnable))
				}
			}
		}
		if ex.Pending() == 0 {
			rep.Exhausted++
		}
		sc.drop()
	}
	return rep
}

// runScheduled runs the scenario's requests on a fresh copy of the prepared node under the
// given chooser and judges the execution.
func (sc *scenario) runScheduled(choose sched.Chooser, full bool) (rep roundReport, ctl *sched.Controller, ok bool) {
	ctl = sched.New(5 * time.Millisecond)
	rep.Pattern = sc.pattern
	defer func() {
		if p := recover(); p != nil {
			rep.Problems = append(rep.Problems, "panic|"+strings.SplitN(fmt.Sprint(p), "\n", 2)[0]+" ## "+fmt.Sprintf("panic: %v", p))
			ok = true
		}
	}()
	fs, err := sc.s.Fork()
	if err != nil {
		rep.Problems = append(rep.Problems, "harness|setup ## fork: "+err.Error())
		return rep, ctl, true
	}
	defer fs.N.Drop()
	run := &scenario{t: sc.t, s: fs, baseModel: sc.baseModel, height: sc.height, pattern: sc.pattern}
	for _, rq := range sc.reqs {
		c := *rq
		c.Call, c.Ret, c.Admitted, c.Err, c.ErrClass, c.Selected = 0, 0, false, "", "", nil
		run.reqs = append(run.reqs, &c)
	}
	var fns []func()
	note := func(string) {}
	for i, rq := range run.reqs {
		i, rq := i, rq
		fns = append(fns, func() { run.perform(i, rq, note) })
	}
	utxo.SetVerifYield(ctl.Yield)
	finished := ctl.Run(fns, choose, 60*time.Second)
	utxo.SetVerifYield(nil)
	if !finished {
		return rep, ctl, false
	}
	rep.Events = ctl.Signature()
	for i, rq := range run.reqs {
		res := "ok"
		if !rq.Admitted {
			res = rq.Err
			rep.Refused++
		} else {
			rep.Admitted++
		}
		rep.Results = append(rep.Results, fmt.Sprintf("%d:%s:%s=%s", i, rq.Kind, rq.Label, res))
	}
	run.judge(&rep, full)
	return rep, ctl, true
}
