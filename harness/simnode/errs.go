package simnode

import (
	"errors"
	"strings"

	"github.com/xuperchain/xupercore/bcs/ledger/xledger/state"
	ecom "github.com/xuperchain/xupercore/kernel/engines/xuperos/common"
)

// Classification of the refusals the statements allow. The monitors decide by the identity of
// the exported sentinel (errors.Is) and, for errors that were wrapped without %w or crossed a
// process boundary as text, by the sentinel's *current* text — never by a literal copied from the
// code under test, so that rewording a message does not change a verdict.

func isErr(err error, sentinel error) bool {
	if err == nil {
		return false
	}
	return errors.Is(err, sentinel) || strings.Contains(err.Error(), sentinel.Error())
}

// IsContention: refused because another admission holds a lock on one of its keys / outputs.
func IsContention(err error) bool { return isErr(err, state.ErrDoubleSpent) }

// IsAlreadyPending: the transaction is in the pool already.
func IsAlreadyPending(err error) bool { return isErr(err, state.ErrAlreadyInUnconfirmed) }

// IsAlreadyConfirmed: the transaction is on the main chain already.
func IsAlreadyConfirmed(err error) bool { return isErr(err, state.ErrAlreadyConfirmed) }

// IsForbidden: the engine declined to look at the request (policy: old block, queue full ...).
func IsForbidden(err error) bool {
	if err == nil {
		return false
	}
	var e *ecom.Error
	if errors.As(err, &e) {
		return e.Equal(ecom.ErrForbidden)
	}
	return strings.Contains(err.Error(), ecom.ErrForbidden.Msg)
}

// ErrClass is the classification as a word, for results that are recorded as text.
func ErrClass(err error) string {
	switch {
	case err == nil:
		return ""
	case IsContention(err):
		return "contention"
	case IsAlreadyPending(err):
		return "already-pending"
	case IsAlreadyConfirmed(err):
		return "already-confirmed"
	case IsForbidden(err):
		return "forbidden"
	}
	return "other"
}
