// Package simnode builds a deterministic in-process xupercore node (ledger + state
// machine + kernel-only contract manager + ACL / govern-token / proposal / timer
// managers) on the verifmem storage engine, through exported constructors only.
package simnode

import (
	"encoding/json"
	"fmt"
	"github.com/xuperchain/xupercore/kernel/consensus"
	"github.com/xuperchain/xupercore/kernel/engines/xuperos"
	"github.com/xuperchain/xupercore/kernel/engines/xuperos/miner"
	"path/filepath"
	"sync"

	lconf "github.com/xuperchain/xupercore/bcs/ledger/xledger/config"
	"github.com/xuperchain/xupercore/bcs/ledger/xledger/ledger"
	"github.com/xuperchain/xupercore/bcs/ledger/xledger/state"
	sctx "github.com/xuperchain/xupercore/bcs/ledger/xledger/state/context"
	"github.com/xuperchain/xupercore/bcs/ledger/xledger/tx"
	pb "github.com/xuperchain/xupercore/bcs/ledger/xledger/xldgpb"
	xconf "github.com/xuperchain/xupercore/kernel/common/xconfig"
	"github.com/xuperchain/xupercore/kernel/contract"
	bridgepb "github.com/xuperchain/xupercore/kernel/contract/bridge/pb"
	_ "github.com/xuperchain/xupercore/kernel/contract/kernel"
	_ "github.com/xuperchain/xupercore/kernel/contract/manager"
	governToken "github.com/xuperchain/xupercore/kernel/contract/proposal/govern_token"
	"github.com/xuperchain/xupercore/kernel/contract/proposal/propose"
	timerTask "github.com/xuperchain/xupercore/kernel/contract/proposal/timer"
	kledger "github.com/xuperchain/xupercore/kernel/ledger"
	"github.com/xuperchain/xupercore/kernel/permission/acl"
	aclBase "github.com/xuperchain/xupercore/kernel/permission/acl/base"
	actx "github.com/xuperchain/xupercore/kernel/permission/acl/context"
	"github.com/xuperchain/xupercore/lib/timer"

	"verif/memkv"
)

const BCName = "xuper"

// Config describes the chain a node runs.
type Config struct {
	Window        int      // irreversible slide window (0 = off)
	Award         string   // block award, decimal
	Quota         []string // genesis quota of Keys()[i]; "" or missing = none
	CPURate       int64    // gas price rates (0 = free)
	DiskRate      int64
	XFeeRate      int64
	MemRate       int64
	NoFee         bool
	NewAcctAmount int64
	MaxBlockMB    int     // max block size in MB (0 = 16)
	DecayGap      int64   // award decay: height gap (0 = no decay in practice)
	DecayRatio    float64 // award decay ratio per period
}

// DefaultConfig is the chain used by most checks: 4 funded identities, award 1000, no gas.
func DefaultConfig() Config {
	return Config{Award: "1000", Quota: []string{"1000000", "1000000", "1000000", "1000000"}}
}

func (c Config) decay() map[string]interface{} {
	if c.DecayGap > 0 {
		return map[string]interface{}{"height_gap": c.DecayGap, "ratio": c.DecayRatio}
	}
	return map[string]interface{}{"height_gap": 31536000, "ratio": 1}
}

func (c Config) blockMB() int {
	if c.MaxBlockMB == 0 {
		return 16
	}
	return c.MaxBlockMB
}

// GenesisJSON renders the genesis document for a config.
func (c Config) GenesisJSON() []byte {
	type pd struct {
		Address string `json:"address"`
		Quota   string `json:"quota"`
	}
	pds := []pd{}
	for i, q := range c.Quota {
		if q == "" {
			continue
		}
		pds = append(pds, pd{Address: K(i).Address, Quota: q})
	}
	doc := map[string]interface{}{
		"version":         "1",
		"predistribution": pds,
		"maxblocksize":    fmt.Sprintf("%d", c.blockMB()),
		"award":           c.Award,
		"decimals":        "8",
		"nofee":           c.NoFee,
		"award_decay":     c.decay(),
		"gas_price": map[string]interface{}{"cpu_rate": c.CPURate, "mem_rate": c.MemRate,
			"disk_rate": c.DiskRate, "xfee_rate": c.XFeeRate},
		"new_account_resource_amount": c.NewAcctAmount,
		"irreversibleslidewindow":     fmt.Sprintf("%d", c.Window),
		"genesis_consensus": map[string]interface{}{"name": "single",
			"config": map[string]interface{}{"miner": K(0).Address, "period": "3000"}},
	}
	b, err := json.Marshal(doc)
	if err != nil {
		panic(err)
	}
	return b
}

// Node is one running instance on a world.
type Node struct {
	Cfg      Config
	World    *memkv.World
	Ledger   *ledger.Ledger
	State    *state.State
	Contract contract.Manager
	Acl      aclBase.AclManager
	Gov      governToken.GovManager
	Log      *CapLogger

	RecoverWG *sync.WaitGroup // see WaitQuiescent
	// AwardExtra, when set, makes FormatBlock build a coinbase with these outputs after the award
	AwardExtra []Out

	chainMu   sync.Mutex
	chain     *xuperos.Chain
	recvMiner *miner.Miner
	// Consensus, when set before the first engine call, replaces the null consensus of the
	// engine objects built for this node (C16 plugs real consensus plugins in)
	Consensus consensus.ConsensusInterface
	// Net, when set before the first engine call, is the network of the engine objects (nil: none;
	// the receive path then fails when an ancestor of a received block is unknown)
	Net *SimNet
}

func envFor(w *memkv.World) *xconf.EnvConf {
	return &xconf.EnvConf{RootPath: w.Root(), DataDir: "data", ChainDir: "blockchain", ConfDir: "conf",
		LogDir: "logs", KeyDir: "keys"}
}

func ledgerConf() *lconf.XLedgerConf {
	c := &lconf.XLedgerConf{KVEngineType: memkv.EngineName, StorageType: "single"}
	c.Utxo.CacheSize = 1000
	c.Utxo.TmpLockSeconds = 3600
	return c
}

// LedgerDB / StateDB are the database names inside a world.
func LedgerDB() string { return filepath.Join("data", "blockchain", BCName, "ledger") }
func StateDB() string  { return filepath.Join("data", "blockchain", BCName, "utxoVM") }

// NewNode creates a fresh chain (genesis confirmed and played) on a new world.
func NewNode(cfg Config) (*Node, error) {
	InitLogs()
	w := memkv.NewWorld()
	n := &Node{Cfg: cfg, World: w, Log: NewCapLogger()}
	lctx := &ledger.LedgerCtx{EnvCfg: envFor(w), LedgerCfg: ledgerConf(), BCName: BCName}
	lctx.XLog = n.Log
	lctx.Timer = timer.NewXTimer()
	gen := cfg.GenesisJSON()
	lg, err := ledger.CreateLedger(lctx, gen)
	if err != nil {
		return nil, fmt.Errorf("create ledger: %v", err)
	}
	n.Ledger = lg
	rootTx, err := tx.GenerateRootTx(gen)
	if err != nil {
		return nil, err
	}
	blk, err := lg.FormatRootBlock([]*pb.Transaction{rootTx})
	if err != nil {
		return nil, err
	}
	st := lg.ConfirmBlock(blk, true)
	if !st.Succ {
		return nil, fmt.Errorf("confirm genesis failed: %v", st.Error)
	}
	if err := n.openState(); err != nil {
		return nil, err
	}
	if err := n.State.Play(blk.Blockid); err != nil {
		return nil, fmt.Errorf("play genesis: %v", err)
	}
	return n, nil
}

// OpenOn opens ledger and state on an existing world (like a process start).
func OpenOn(w *memkv.World, cfg Config) (*Node, error) {
	InitLogs()
	n := &Node{Cfg: cfg, World: w, Log: NewCapLogger()}
	lctx := &ledger.LedgerCtx{EnvCfg: envFor(w), LedgerCfg: ledgerConf(), BCName: BCName}
	lctx.XLog = n.Log
	lctx.Timer = timer.NewXTimer()
	lg, err := ledger.OpenLedger(lctx)
	if err != nil {
		return nil, fmt.Errorf("open ledger: %v", err)
	}
	n.Ledger = lg
	if err := n.openState(); err != nil {
		return nil, err
	}
	return n, nil
}

func (n *Node) openState() error {
	c := &sctx.StateCtx{EnvCfg: envFor(n.World), LedgerCfg: ledgerConf(), BCName: BCName,
		Ledger: n.Ledger, Crypt: Crypto()}
	c.XLog = n.Log
	c.Timer = timer.NewXTimer()
	st, err := state.NewState(c)
	if err != nil {
		return fmt.Errorf("new state: %v", err)
	}
	n.State = st
	rely := &ledgerRely{n: n}
	mgCfg := &contract.ManagerConfig{
		BCName:   BCName,
		Basedir:  filepath.Join(n.World.Root(), "data", "blockchain", BCName),
		Core:     &chainCore{n: n},
		XMReader: st.CreateXMReader(),
		Config: &contract.ContractConfig{
			Xkernel:   contract.XkernelConfig{Enable: true, Driver: "default"},
			LogDriver: n.Log,
		},
	}
	cm, err := contract.CreateManager("default", mgCfg)
	if err != nil {
		return fmt.Errorf("contract manager: %v", err)
	}
	n.Contract = cm
	st.SetContractMG(cm)
	ac := &actx.AclCtx{BcName: BCName, Ledger: rely, Contract: cm}
	ac.XLog = n.Log
	ac.Timer = timer.NewXTimer()
	am, err := acl.NewACLManager(ac)
	if err != nil {
		return fmt.Errorf("acl manager: %v", err)
	}
	n.Acl = am
	st.SetAclMG(am)
	gc := &governToken.GovCtx{BcName: BCName, Ledger: rely, Contract: cm}
	gc.XLog = n.Log
	gc.Timer = timer.NewXTimer()
	gm, err := governToken.NewGovManager(gc)
	if err != nil {
		return fmt.Errorf("gov manager: %v", err)
	}
	n.Gov = gm
	st.SetGovernTokenMG(gm)
	pc := &propose.ProposeCtx{BcName: BCName, Ledger: rely, Contract: cm}
	pc.XLog = n.Log
	pc.Timer = timer.NewXTimer()
	pm, err := propose.NewProposeManager(pc)
	if err != nil {
		return fmt.Errorf("propose manager: %v", err)
	}
	st.SetProposalMG(pm)
	tc := &timerTask.TimerCtx{BcName: BCName, Ledger: rely, Contract: cm}
	tc.XLog = n.Log
	tc.Timer = timer.NewXTimer()
	tm, err := timerTask.NewTimerTaskManager(tc)
	if err != nil {
		return fmt.Errorf("timer manager: %v", err)
	}
	st.SetTimerTaskMG(tm)
	RegisterVerifContract(cm.GetKernRegistry())
	return nil
}

// Reopen closes both instances and opens new ones on the same data.
func (n *Node) Reopen() error {
	n.WaitQuiescent()
	m, err := OpenOn(n.World, n.Cfg)
	if err != nil {
		return err
	}
	cons, net := n.Consensus, n.Net
	*n = *m
	n.Consensus, n.Net = cons, net // the configuration of the engine objects survives a restart
	return nil
}

// Twin opens a second, independent node on a copy of the persisted data.
func (n *Node) Twin() (*Node, error) {
	n.WaitQuiescent()
	return OpenOn(n.World.Clone(), n.Cfg)
}

// Drop releases the world.
func (n *Node) Drop() { n.World.Drop() }

type ledgerRely struct{ n *Node }

func (r *ledgerRely) GetNewAccountGas() (int64, error) {
	return r.n.Ledger.GenesisBlock.GetConfig().GetNewAccountResourceAmount(), nil
}
func (r *ledgerRely) GetNewGovGas() (int64, error) {
	return r.n.Ledger.GenesisBlock.GetConfig().GetNewAccountResourceAmount(), nil
}
func (r *ledgerRely) GetGenesisPreDistribution() ([]ledger.Predistribution, error) {
	return r.n.Ledger.GenesisBlock.GetConfig().GetPredistribution(), nil
}
func (r *ledgerRely) GetTipXMSnapshotReader() (kledger.XMSnapshotReader, error) {
	return r.n.State.GetTipXMSnapshotReader()
}

type chainCore struct{ n *Node }

func (c *chainCore) GetAccountAddresses(accountName string) ([]string, error) {
	return c.n.Acl.GetAccountAddresses(accountName)
}
func (c *chainCore) VerifyContractPermission(initiator string, authRequire []string, contractName, methodName string) (bool, error) {
	return c.n.State.VerifyContractPermission(initiator, authRequire, contractName, methodName)
}
func (c *chainCore) VerifyContractOwnerPermission(contractName string, authRequire []string) error {
	return c.n.State.VerifyContractOwnerPermission(contractName, authRequire)
}
func (c *chainCore) QueryTransaction(txid []byte) (*bridgepb.Transaction, error) {
	return c.n.State.QueryTransaction(txid)
}
func (c *chainCore) QueryBlock(blockid []byte) (kledger.BlockHandle, error) {
	return c.n.State.QueryBlock(blockid)
}
