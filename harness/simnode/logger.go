package simnode

import (
	"fmt"
	"io/ioutil"
	"os"
	"path/filepath"
	"sync"

	"github.com/xuperchain/xupercore/lib/logs"
)

// CapLogger is a silent logs.Logger that keeps the last Warn/Error lines for witnesses.
type CapLogger struct {
	mu    sync.Mutex
	lines []string
	max   int

	recDone      int // number of "recover unconfirm tx done" messages seen
	recAnnounced int // number of "walk failed, recover unconfirm tx" messages seen
}

func NewCapLogger() *CapLogger { return &CapLogger{max: 200} }

func (l *CapLogger) add(lvl, msg string, ctx []interface{}) {
	l.mu.Lock()
	defer l.mu.Unlock()
	s := lvl + " " + msg
	for i := 0; i+1 < len(ctx); i += 2 {
		s += fmt.Sprintf(" %v=%v", ctx[i], ctx[i+1])
	}
	if len(s) > 400 {
		s = s[:400]
	}
	l.lines = append(l.lines, s)
	if len(l.lines) > l.max {
		l.lines = l.lines[len(l.lines)-l.max:]
	}
}

func (l *CapLogger) GetLogId() string                           { return "verif" }
func (l *CapLogger) SetCommField(key string, value interface{}) {}
func (l *CapLogger) SetInfoField(key string, value interface{}) {}
func (l *CapLogger) Error(msg string, ctx ...interface{})       { l.add("E", msg, ctx) }
func (l *CapLogger) Warn(msg string, ctx ...interface{})        { l.add("W", msg, ctx) }
func (l *CapLogger) Info(msg string, ctx ...interface{}) {
	l.noteInfo(msg)
	if logAll {
		l.add("I", msg, ctx)
	}
}
func (l *CapLogger) Trace(msg string, ctx ...interface{}) {}
func (l *CapLogger) Debug(msg string, ctx ...interface{}) {
	if logAll {
		l.add("D", msg, ctx)
	}
}

var logAll = os.Getenv("VERIF_LOGALL") != ""

// Tail returns the last n captured lines.
func (l *CapLogger) Tail(n int) []string {
	l.mu.Lock()
	defer l.mu.Unlock()
	if n > len(l.lines) {
		n = len(l.lines)
	}
	return append([]string(nil), l.lines[len(l.lines)-n:]...)
}

var (
	logOnce    sync.Once
	scratchDir string
)

// Scratch returns a per-process scratch directory (created on first use).
func Scratch() string {
	InitLogs()
	return scratchDir
}

// InitLogs initialises xupercore's global logger once per process: level error, no console,
// files in a scratch directory. Needed because a few components create their own logger.
func InitLogs() {
	logOnce.Do(func() {
		base := os.Getenv("VERIF_SCRATCH")
		if base == "" {
			base = os.TempDir()
		}
		dir, err := ioutil.TempDir(base, "verif-")
		if err != nil {
			panic(err)
		}
		scratchDir = dir
		conf := filepath.Join(dir, "log.yaml")
		y := "module: verif\nfilename: verif\nfmt: logfmt\nlevel: error\nrotateInterval: 0\nrotateBackups: 0\nconsole: false\nasync: false\nbufSize: 1024\n"
		if err := ioutil.WriteFile(conf, []byte(y), 0644); err != nil {
			panic(err)
		}
		logs.InitLog(conf, filepath.Join(dir, "logs"))
	})
}

// CleanupScratch removes the scratch directory (call at process exit).
func CleanupScratch() {
	if scratchDir != "" {
		os.RemoveAll(scratchDir)
	}
}
