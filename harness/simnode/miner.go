package simnode

import (
	"errors"
	"fmt"
	"math/big"

	"github.com/golang/protobuf/proto"
	txn "github.com/xuperchain/xupercore/bcs/ledger/xledger/tx"
	pb "github.com/xuperchain/xupercore/bcs/ledger/xledger/xldgpb"
)

// PackBlock is a line-by-line transcription of miner.packBlock of the xuperos engine
// (kernel/engines/xuperos/miner/miner.go) on a bare ledger + state: timer transaction,
// pool prefix under the size limit in the order the pool yields it, award, FormatMinerBlock.
// All calls into xupercore are the real ones; only the 40 lines of glue are transcribed.
func (n *Node) PackBlock(proposer *Key, ts int64) (*pb.InternalBlock, error) {
	height := n.Ledger.GetMeta().TrunkHeight + 1
	sizeLimit, err := n.State.MaxTxSizePerBlock()
	if err != nil {
		return nil, err
	}
	autoTx, err := n.State.GetTimerTx(height)
	if err != nil {
		return nil, fmt.Errorf("timer tx: %v", err)
	}
	if autoTx == nil {
		return nil, errors.New("timer tx is nil (state context not initialised)")
	}
	if len(autoTx.TxOutputsExt) > 0 {
		sizeLimit -= proto.Size(autoTx)
	}
	unconfirmed, err := n.State.GetUnconfirmedTx(false)
	if err != nil {
		return nil, err
	}
	general := make([]*pb.Transaction, 0)
	for _, t := range unconfirmed {
		size := proto.Size(t)
		if size > sizeLimit {
			break
		}
		sizeLimit -= size
		general = append(general, t)
	}
	amount := n.Ledger.GenesisBlock.CalcAward(height)
	if amount.Cmp(big.NewInt(0)) < 0 {
		return nil, errors.New("negative award")
	}
	awardTx, err := txn.GenerateAwardTx(proposer.Address, amount.String(), []byte("award"))
	if err != nil {
		return nil, err
	}
	txList := []*pb.Transaction{awardTx}
	if len(autoTx.TxOutputsExt) > 0 {
		txList = append(txList, autoTx)
	}
	txList = append(txList, general...)
	return n.Ledger.FormatMinerBlock(txList, []byte(proposer.Address), proposer.Priv, ts, 0, 0,
		n.State.GetLatestBlockid(), 0, n.State.GetTotal(), nil, nil, height)
}

// ConfirmForMiner is miner.confirmBlockForMiner without the consensus callbacks.
func (n *Node) ConfirmForMiner(b *pb.InternalBlock) error {
	st := n.Ledger.ConfirmBlock(b, false)
	if !st.Succ {
		return fmt.Errorf("ledger confirm block error: %v", st.Error)
	}
	if st.Orphan {
		return nil
	}
	return n.State.PlayForMiner(b.Blockid)
}
