package simnode

import (
	"errors"
	"time"

	pb "github.com/xuperchain/xupercore/bcs/ledger/xledger/xldgpb"
	"github.com/xuperchain/xupercore/kernel/common/xaddress"
	xctx "github.com/xuperchain/xupercore/kernel/common/xcontext"
	cbase "github.com/xuperchain/xupercore/kernel/consensus/base"
	cctx "github.com/xuperchain/xupercore/kernel/consensus/context"
	"github.com/xuperchain/xupercore/kernel/engines/xuperos"
	"github.com/xuperchain/xupercore/kernel/engines/xuperos/common"
	engconf "github.com/xuperchain/xupercore/kernel/engines/xuperos/config"
	"github.com/xuperchain/xupercore/kernel/engines/xuperos/miner"
	"github.com/xuperchain/xupercore/lib/timer"
)

// nullConsensus is the consensus a single-producer harness chain runs under: every block
// matches, nothing to compute, nothing to truncate (the properties about consensus rules have
// their own checks: C14-C16).
type nullConsensus struct{}

// NullConsensus is embedded by harness consensus wrappers that replace single methods.
type NullConsensus = nullConsensus

func (nullConsensus) CompeteMaster(height int64) (bool, bool, error) { return true, false, nil }
func (nullConsensus) CheckMinerMatch(ctx xctx.XContext, block cctx.BlockInterface) (bool, error) {
	return true, nil
}
func (nullConsensus) ProcessBeforeMiner(timestamp int64) ([]byte, []byte, error) {
	return nil, nil, nil
}
func (nullConsensus) CalculateBlock(block cctx.BlockInterface) error      { return nil }
func (nullConsensus) ProcessConfirmBlock(block cctx.BlockInterface) error { return nil }
func (nullConsensus) GetConsensusStatus() (cbase.ConsensusStatus, error) {
	return nil, errors.New("null consensus")
}

// Miner returns the engine's real miner object (kernel/engines/xuperos/miner) bound to this
// node's ledger and state and to the given producer key. Only the synchronous steps exported
// under the verif build tag are used; the consensus-driven loop and the network are not started.
func (n *Node) Miner(proposer *Key) *miner.Miner {
	return miner.NewMiner(n.chainCtx(proposer))
}

// Chain returns the engine's Chain object bound to this node's components (one per node
// instance, so that the duplicate-id cache of SubmitTx lives as long as the node does).
func (n *Node) Chain() *xuperos.Chain {
	n.chainMu.Lock()
	defer n.chainMu.Unlock()
	if n.chain == nil {
		n.chain = xuperos.VerifNewChain(n.chainCtx(K(0)))
	}
	return n.chain
}

func (n *Node) chainCtx(proposer *Key) *common.ChainCtx {
	c := &common.ChainCtx{
		EngCtx:    &common.EngineCtx{EngCfg: engconf.GetDefEngineConf()},
		BCName:    BCName,
		Ledger:    n.Ledger,
		State:     n.State,
		Contract:  n.Contract,
		Consensus: nullConsensus{},
		Crypto:    Crypto(),
		Acl:       n.Acl,
		Address:   &xaddress.Address{Address: proposer.Address, PrivateKey: proposer.Priv, PublicKey: &proposer.Priv.PublicKey},
	}
	if n.Consensus != nil {
		c.Consensus = n.Consensus
	}
	if n.Net != nil {
		c.EngCtx.Net = n.Net
	} else {
		c.EngCtx.Net = &SimNet{Self: proposer.Address} // a network without peers: every request fails
	}
	c.XLog = n.Log
	c.Timer = timer.NewXTimer()
	return c
}

func (n *Node) reqCtx() xctx.XContext {
	return &xctx.BaseCtx{XLog: n.Log, Timer: timer.NewXTimer()}
}

// PackBlock assembles the next block exactly as the engine's miner does: it calls the real
// miner.packBlock (timer transaction, pool prefix under the size limit in the order the pool
// yields it, award, FormatMinerBlock) through the verif export shim. ts is the block's
// timestamp in nanoseconds.
func (n *Node) PackBlock(proposer *Key, ts int64) (*pb.InternalBlock, error) {
	height := n.Ledger.GetMeta().TrunkHeight + 1
	return n.Miner(proposer).VerifPackBlock(n.reqCtx(), height, time.Unix(0, ts), nil)
}

// ConfirmForMiner is the real miner.confirmBlockForMiner (ledger confirm, PlayForMiner) under
// the null consensus.
func (n *Node) ConfirmForMiner(b *pb.InternalBlock) error {
	// (after a block that changes access-control rules the miner refreshes the pool with a walk
	// to the own block: wait for its re-admission goroutine)
	return n.withRecovery(func() error { return n.Miner(K(0)).VerifConfirmBlockForMiner(n.reqCtx(), b) })
}

// TruncateForMiner is the real miner.truncateForMiner (consensus-ordered rollback: the state
// walks to the target, then the ledger is truncated to it).
func (n *Node) TruncateForMiner(target []byte) error {
	return n.withRecovery(func() error { return n.Miner(K(0)).VerifTruncateForMiner(n.reqCtx(), target) })
}

// ProcBlock hands a block received from a peer to the engine's real miner (Miner.ProcBlock: size
// and per-transaction validity checks, pending store, VerifyBlock, consensus check, ConfirmBlock,
// Walk to the new ledger tip). The miner object lives as long as the node instance: it remembers
// the height it has synchronised to. No network is needed while the block's parent is stored.
func (n *Node) ProcBlock(b *pb.InternalBlock) error {
	n.chainMu.Lock()
	if n.recvMiner == nil {
		n.recvMiner = miner.NewMiner(n.chainCtx(K(0)))
	}
	m := n.recvMiner
	n.chainMu.Unlock()
	return n.withRecovery(func() error { return m.ProcBlock(n.reqCtx(), CloneBlock(b)) })
}

// TruncatingConsensus is the null consensus whose pre-mining step can order a truncation once:
// set Target to the id of a main-chain block and the next production round first rolls ledger
// and state back to it (what the chained-BFT consensuses do when they roll back to their
// highest certified block).
type TruncatingConsensus struct {
	NullConsensus
	Target []byte
}

func (c *TruncatingConsensus) ProcessBeforeMiner(timestamp int64) ([]byte, []byte, error) {
	t := c.Target
	c.Target = nil
	return t, nil, nil
}

// Mine runs one whole production round of the engine's real miner (Miner.mining: state walk if
// the ledger is ahead, the consensus' pre-mining step incl. a truncation it orders, packBlock,
// confirmBlockForMiner, asynchronous broadcast) and returns the block it produced.
func (n *Node) Mine(proposer *Key) (*pb.InternalBlock, error) {
	before := n.Ledger.GetMeta().TipBlockid
	if err := n.withRecovery(func() error { return n.Miner(proposer).VerifMining(n.reqCtx()) }); err != nil {
		return nil, err
	}
	tip := n.Ledger.GetMeta().TipBlockid
	if string(tip) == string(before) {
		return nil, errors.New("mining reported success but the ledger tip did not move")
	}
	return n.Ledger.QueryBlock(tip)
}
