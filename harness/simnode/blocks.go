package simnode

import (
	"fmt"
	"math/big"
	"sync/atomic"
	"time"

	"github.com/golang/protobuf/proto"
	"github.com/xuperchain/xupercore/bcs/ledger/xledger/ledger"
	"github.com/xuperchain/xupercore/bcs/ledger/xledger/state/utxo/txhash"
	pb "github.com/xuperchain/xupercore/bcs/ledger/xledger/xldgpb"
	"github.com/xuperchain/xupercore/protos"
)

// AwardTx builds the coinbase transaction of a block exactly like tx.GenerateAwardTx,
// but with a caller-chosen timestamp so that ids are reproducible.
func AwardTx(addr string, amount *big.Int, ts int64) *pb.Transaction {
	t := &pb.Transaction{Version: 1, Coinbase: true, Desc: []byte("award"), Timestamp: ts}
	t.TxOutputs = append(t.TxOutputs, &protos.TxOutput{ToAddr: []byte(addr), Amount: amount.Bytes()})
	t.Txid, _ = txhash.MakeTransactionID(t)
	return t
}

// AwardTxSplit is an award whose first output is the regular award (all the award rule looks at)
// followed by further outputs: the node accepts such a coinbase from any producer, so undo,
// totals and crash recovery have to cope with coinbases of several outputs outside genesis too.
func AwardTxSplit(addr string, amount *big.Int, ts int64, extra ...Out) *pb.Transaction {
	t := &pb.Transaction{Version: 1, Coinbase: true, Desc: []byte("award"), Timestamp: ts}
	t.TxOutputs = append(t.TxOutputs, &protos.TxOutput{ToAddr: []byte(addr), Amount: amount.Bytes()})
	for _, o := range extra {
		t.TxOutputs = append(t.TxOutputs, &protos.TxOutput{ToAddr: []byte(o.To), Amount: o.Amount.Bytes()})
	}
	t.Txid, _ = txhash.MakeTransactionID(t)
	return t
}

// CloneTx deep-copies a transaction.
func CloneTx(t *pb.Transaction) *pb.Transaction { return proto.Clone(t).(*pb.Transaction) }

// CloneBlock deep-copies a block.
func CloneBlock(b *pb.InternalBlock) *pb.InternalBlock { return proto.Clone(b).(*pb.InternalBlock) }

// FormatBlock makes a signed block on parent with [award, txs...] using the node's own
// ledger formatter (the code path a miner uses). Transactions are deep-copied.
func (n *Node) FormatBlock(parent []byte, height int64, proposer *Key, ts int64, txs []*pb.Transaction, withAward bool) (*pb.InternalBlock, error) {
	list := []*pb.Transaction{}
	if withAward && len(n.AwardExtra) > 0 {
		list = append(list, AwardTxSplit(proposer.Address, n.Ledger.GenesisBlock.CalcAward(height), ts, n.AwardExtra...))
	} else if withAward {
		list = append(list, AwardTx(proposer.Address, n.Ledger.GenesisBlock.CalcAward(height), ts))
	}
	for _, t := range txs {
		c := CloneTx(t)
		c.Blockid = nil
		list = append(list, c)
	}
	b, err := n.Ledger.FormatMinerBlock(list, []byte(proposer.Address), proposer.Priv, ts, 0, 0, parent, 0,
		big.NewInt(0), nil, nil, height)
	if err != nil {
		return nil, err
	}
	return WireBlock(b), nil
}

// Confirm hands a copy of the block to the ledger (ConfirmBlock mutates its argument).
func (n *Node) Confirm(b *pb.InternalBlock) ledger.ConfirmStatus {
	return n.Ledger.ConfirmBlock(CloneBlock(b), false)
}

// Walk calls State.Walk and waits for the asynchronous pool recovery it starts.
func (n *Node) Walk(target []byte, prune bool) error {
	return n.withRecovery(func() error { return n.State.Walk(target, prune) })
}

// WalkBackToBack walks to the given blocks one right after the other, as an engine does when
// blocks arrive in quick succession: the pool re-admission goroutine of one walk is still running
// when the next walk starts. Returns when every re-admission has finished.
func (n *Node) WalkBackToBack(targets ...[]byte) error {
	return n.withRecovery(func() error {
		for _, id := range targets {
			if err := n.State.Walk(id, false); err != nil {
				return err
			}
		}
		return nil
	})
}

// WithRecovery is withRecovery for callers that drive State.Walk themselves.
func (n *Node) WithRecovery(f func() error) error { return n.withRecovery(f) }

// withRecovery runs f (which may call State.Walk any number of times) and then waits for every
// pool recovery goroutine those walks started. Two independent sources are used so that the wait
// does not hinge on one implementation detail of the code under test:
//   - the verif hook State.VerifWaitRecovery (exact while a recovery keeps the recovery mutex
//     until it is done, as the code does since the walk-walk repair);
//   - the node's own log: a walk announces the goroutine synchronously before it returns
//     ("utxo walk finish" on success, "walk failed, recover unconfirm tx" on a failure that gives
//     the pool back) and the goroutine logs "recover unconfirm tx done" exactly once. This covers
//     a tree in which the recovery no longer holds the mutex; when the log lines have been
//     reworded it is simply silent (no announcement counted, nothing waited for).
func (n *Node) withRecovery(f func() error) error {
	done, started := n.Log.recoverDone(), n.Log.recoverStarted()
	err := f()
	n.State.VerifWaitRecovery()
	if d := n.Log.recoverStarted() - started; d > 0 {
		n.Log.waitRecover(done + d)
	}
	return err
}

// WaitQuiescent returns once no pool recovery started by an earlier walk is running.
func (n *Node) WaitQuiescent() { n.State.VerifWaitRecovery() }

// ---- recovery tracking through the capturing logger ----
// State.Walk starts `go recoverUnconfirmedTx(...)` on every successful return; that
// goroutine logs "recover unconfirm tx done" exactly once when it finishes.

const recoverDoneMsg = "recover unconfirm tx done"
const recoverAnnouncedMsg = "walk failed, recover unconfirm tx"
const walkFinishMsg = "utxo walk finish"

// recoverStarted counts the recovery goroutines walks have started so far.
func (l *CapLogger) recoverStarted() int {
	l.mu.Lock()
	defer l.mu.Unlock()
	return l.recAnnounced
}

func (l *CapLogger) recoverDone() int {
	l.mu.Lock()
	defer l.mu.Unlock()
	return l.recDone
}

func (l *CapLogger) noteInfo(msg string) {
	if msg == recoverDoneMsg {
		l.mu.Lock()
		l.recDone++
		l.mu.Unlock()
	}
	if msg == recoverAnnouncedMsg || msg == walkFinishMsg {
		l.mu.Lock()
		l.recAnnounced++
		l.mu.Unlock()
	}
}

// waitRecover blocks until the done counter reaches want. It is called after the hook-based wait
// has returned, so on a tree whose recovery keeps the mutex the counter is already there. If it is
// not, either the recovery runs outside the mutex (then the message will come) or the completion
// message has been reworded (then it never will): the first few misses are given 3 s each, after
// which the log is declared unreliable for this process and the hook alone decides. A generous
// wall-clock watch-dog never turns into a violation.
func (l *CapLogger) waitRecover(want int) {
	if l.recoverDone() >= want || logWaitOff.Load() {
		return
	}
	deadline := time.Now().Add(3 * time.Second)
	for {
		if l.recoverDone() >= want {
			return
		}
		if time.Now().After(deadline) {
			if logWaitMisses.Add(1) >= 3 {
				logWaitOff.Store(true)
			}
			return
		}
		time.Sleep(50 * time.Microsecond)
	}
}

var (
	logWaitMisses atomic.Int32
	logWaitOff    atomic.Bool
)

// Inconclusive is the panic value used for harness-side watchdogs.
type Inconclusive struct{ Why string }

func (i Inconclusive) Error() string { return "inconclusive: " + i.Why }

// TipID / Height helpers
func (n *Node) LedgerTip() []byte   { return n.Ledger.GetMeta().TipBlockid }
func (n *Node) LedgerHeight() int64 { return n.Ledger.GetMeta().TrunkHeight }
func (n *Node) StateTip() []byte    { return n.State.GetLatestBlockid() }
func (n *Node) Root() []byte        { return n.Ledger.GetMeta().RootBlockid }
func Hex(b []byte) string           { return fmt.Sprintf("%x", b) }
func Short(b []byte) string {
	s := fmt.Sprintf("%x", b)
	if len(s) > 8 {
		return s[:8]
	}
	return s
}
