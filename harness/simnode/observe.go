package simnode

import (
	"fmt"
	"math/big"
	"sort"
	"strings"

	"github.com/golang/protobuf/proto"
	pb "github.com/xuperchain/xupercore/bcs/ledger/xledger/xldgpb"
)

// Obs is the comparison vector of a state machine: everything a client can ask it.
type Obs struct {
	M map[string]string
}

// ObsOpt selects optional parts of the vector.
type ObsOpt struct {
	Txids     [][]byte // QueryTx is asked for these
	Select    bool     // include SelectUtxos(addr, balance, lock=false)
	SkipPool  bool     // leave pool membership out
	Addresses []string // extra addresses to ask balances for
}

var endKey = []byte{0xff, 0xff, 0xff, 0xff}

func splitRaw(raw string) (string, string) {
	i := strings.Index(raw, "/")
	if i < 0 {
		return raw, ""
	}
	return raw[:i], raw[i+1:]
}

func addrOfUtxoKey(k string) string {
	// U<addr>_<txid hex>_<offset>
	k = k[1:]
	i := strings.LastIndex(k, "_")
	if i < 0 {
		return k
	}
	j := strings.LastIndex(k[:i], "_")
	if j < 0 {
		return k
	}
	return k[:j]
}

// Observe collects the vector with default options.
func Observe(n *Node) *Obs { return ObserveOpt(n, ObsOpt{}) }

// ObserveOpt collects the vector.
func ObserveOpt(n *Node, opt ObsOpt) *Obs {
	o := &Obs{M: map[string]string{}}
	db := n.State.GetLDB()
	addrs := map[string]bool{}
	for _, k := range Keys() {
		addrs[k.Address] = true
	}
	for _, a := range opt.Addresses {
		addrs[a] = true
	}
	rawKeys := map[string]bool{}
	buckets := map[string]bool{}
	scan := func(prefix string, f func(k string, v []byte)) {
		it := db.NewIteratorWithPrefix([]byte(prefix))
		for it.Next() {
			f(string(it.Key()), it.Value())
		}
		it.Release()
	}
	scan("U", func(k string, v []byte) {
		o.M["U:"+k] = fmt.Sprintf("%x", v)
		addrs[addrOfUtxoKey(k)] = true
	})
	scan("ZU", func(k string, v []byte) {
		o.M["ZU:"+k[2:]] = string(v)
		rawKeys[k[2:]] = true
	})
	scan("ZD", func(k string, v []byte) {
		rawKeys[k[2:]] = true
	})
	scan("M", func(k string, v []byte) {
		name := k[1:]
		if name == "IrreversibleBlockHeight" || name == "IrreversibleSlideWindow" {
			return
		}
		o.M["M:"+name] = fmt.Sprintf("%x", v)
	})
	if !opt.SkipPool {
		scan("N", func(k string, v []byte) {
			o.M["N:"+fmt.Sprintf("%x", k[1:])] = "row"
		})
		pool, err := n.State.GetUnconfirmedTx(false)
		if err != nil {
			o.M["pool.err"] = err.Error()
		}
		for _, t := range pool {
			o.M["pool:"+Hex(t.Txid)] = "mem"
		}
	}
	rd := n.State.CreateXMReader()
	for raw := range rawKeys {
		b, k := splitRaw(raw)
		buckets[b] = true
		vd, err := rd.Get(b, []byte(k))
		if err != nil {
			o.M["get:"+raw] = "ERR " + err.Error()
			continue
		}
		o.M["get:"+raw] = fmt.Sprintf("%x|%x_%d", vd.GetPureData().GetValue(), vd.GetRefTxid(), vd.GetRefOffset())
	}
	for b := range buckets {
		it, err := rd.Select(b, []byte(""), endKey)
		if err != nil {
			o.M["select:"+b] = "ERR " + err.Error()
			continue
		}
		var sb strings.Builder
		for it.Next() {
			vd := it.Value()
			fmt.Fprintf(&sb, "%x=%x|%x_%d,", it.Key(), vd.GetPureData().GetValue(), vd.GetRefTxid(), vd.GetRefOffset())
		}
		if it.Error() != nil {
			sb.WriteString("ITERERR " + it.Error().Error())
		}
		it.Close()
		o.M["select:"+b] = sb.String()
	}
	for a := range addrs {
		b1, err1 := n.State.GetBalance(a)
		b2, err2 := n.State.GetBalance(a)
		o.M["bal:"+a] = fmt.Sprintf("%v/%v %v/%v", b1, err1, b2, err2)
		if b1 != nil && b2 != nil && b1.Cmp(b2) != 0 {
			o.M["bal.coldwarm:"+a] = fmt.Sprintf("cold %v != warm %v", b1, b2)
		}
		fz, err := n.State.GetFrozenBalance(a)
		o.M["frozen:"+a] = fmt.Sprintf("%v %v", fz, err)
		det, err := n.State.GetBalanceDetail(a)
		s := ""
		for _, d := range det {
			s += fmt.Sprintf("%s/%v;", d.Balance, d.IsFrozen)
		}
		o.M["detail:"+a] = fmt.Sprintf("%s %v", s, err)
		if opt.Select && b1 != nil && b1.Sign() > 0 {
			unfrozen := new(big.Int).Sub(b1, fz)
			if unfrozen.Sign() > 0 {
				ins, _, tot, err := n.State.SelectUtxos(a, unfrozen, false, false)
				items := []string{}
				for _, in := range ins {
					items = append(items, fmt.Sprintf("%x_%d:%x:%d", in.RefTxid, in.RefOffset, in.Amount, in.FrozenHeight))
				}
				sort.Strings(items)
				o.M["sel:"+a] = fmt.Sprintf("%v %v %v", items, tot, err)
			}
		}
	}
	o.M["total"] = n.State.GetTotal().String()
	m := n.State.GetMeta()
	o.M["tip"] = Hex(n.State.GetLatestBlockid())
	o.M["meta.total"] = m.UtxoTotal
	o.M["meta.maxblocksize"] = fmt.Sprint(m.MaxBlockSize)
	o.M["meta.newacct"] = fmt.Sprint(m.NewAccountResourceAmount)
	o.M["meta.gas"] = proto.CompactTextString(m.GasPrice)
	o.M["meta.reserved"] = fmt.Sprint(len(m.ReservedContracts))
	o.M["meta.window"] = fmt.Sprint(m.IrreversibleSlideWindow)
	for _, id := range opt.Txids {
		t, confirmed, err := n.State.QueryTx(id)
		if err != nil {
			o.M["qtx:"+Hex(id)] = "ERR " + err.Error()
			continue
		}
		c := proto.Clone(t).(*pb.Transaction)
		c.Blockid = nil
		c.ReceivedTimestamp = 0
		buf, _ := proto.Marshal(c)
		o.M["qtx:"+Hex(id)] = fmt.Sprintf("%v %x", confirmed, shortHash(buf))
	}
	return o
}

func shortHash(b []byte) []byte {
	var h uint64 = 1469598103934665603
	for _, c := range b {
		h ^= uint64(c)
		h *= 1099511628211
	}
	return []byte(fmt.Sprintf("%016x", h))
}

// Diff lists the entries in which two vectors differ (empty = equal).
func (o *Obs) Diff(p *Obs) []string {
	out := []string{}
	for k, v := range o.M {
		if w, ok := p.M[k]; !ok {
			out = append(out, fmt.Sprintf("%s: %q vs <absent>", k, clip(v)))
		} else if v != w {
			out = append(out, fmt.Sprintf("%s: %q vs %q", k, clip(v), clip(w)))
		}
	}
	for k, w := range p.M {
		if _, ok := o.M[k]; !ok {
			out = append(out, fmt.Sprintf("%s: <absent> vs %q", k, clip(w)))
		}
	}
	sort.Strings(out)
	return out
}

func clip(s string) string {
	if len(s) > 160 {
		return s[:160] + "..."
	}
	return s
}
