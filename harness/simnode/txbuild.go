package simnode

import (
	"crypto/ecdsa"
	"math/big"

	"github.com/golang/protobuf/proto"
	"github.com/xuperchain/xupercore/bcs/ledger/xledger/state/utxo/txhash"
	pb "github.com/xuperchain/xupercore/bcs/ledger/xledger/xldgpb"
	"github.com/xuperchain/xupercore/kernel/contract"
	aclu "github.com/xuperchain/xupercore/kernel/permission/acl/utils"
	"github.com/xuperchain/xupercore/protos"
)

// Out is one token output of a transaction under construction.
type Out struct {
	To     string
	Amount *big.Int
	Raw    []byte // when non-nil used verbatim as the amount encoding
	Frozen int64
}

// TxSpec is everything a client decides about a transaction.
type TxSpec struct {
	Version   int32
	Initiator string
	Signers   []*Key   // keys that sign (initiator first when it is an address)
	AuthReq   []string // auth_require entries (default: addresses of Signers)
	Inputs    []*protos.TxInput
	Outputs   []Out
	Desc      []byte
	Nonce     string
	Timestamp int64
	InExt     []*protos.TxInputExt
	OutExt    []*protos.TxOutputExt
	Requests  []*protos.InvokeRequest
	XuperSign bool // aggregate signature instead of individual ones
}

// BuildTx assembles, signs and identifies a transaction the way a client SDK does and
// passes it through a marshal round trip (the RPC boundary).
func BuildTx(s TxSpec) (*pb.Transaction, error) {
	tx := &pb.Transaction{
		Version:          s.Version,
		Initiator:        s.Initiator,
		Desc:             s.Desc,
		Nonce:            s.Nonce,
		Timestamp:        s.Timestamp,
		TxInputs:         s.Inputs,
		TxInputsExt:      s.InExt,
		TxOutputsExt:     s.OutExt,
		ContractRequests: s.Requests,
	}
	if tx.Version == 0 {
		tx.Version = 3
	}
	for _, o := range s.Outputs {
		amt := o.Raw
		if amt == nil {
			amt = o.Amount.Bytes()
		}
		tx.TxOutputs = append(tx.TxOutputs, &protos.TxOutput{ToAddr: []byte(o.To), Amount: amt, FrozenHeight: o.Frozen})
	}
	if s.AuthReq != nil {
		tx.AuthRequire = s.AuthReq
	} else {
		for _, k := range s.Signers {
			tx.AuthRequire = append(tx.AuthRequire, k.Address)
		}
	}
	if err := SignTx(tx, s.Signers, s.XuperSign); err != nil {
		return nil, err
	}
	return Wire(tx)
}

// SignTx (re)computes signatures and txid of tx with the given signer keys.
// Convention: Signers[0] signs as initiator; every Signers[i] signs auth_require[i].
func SignTx(tx *pb.Transaction, signers []*Key, xuperSign bool) error {
	tx.InitiatorSigns = nil
	tx.AuthRequireSigns = nil
	tx.XuperSign = nil
	digest, err := txhash.MakeTxDigestHash(tx)
	if err != nil {
		return err
	}
	c := Crypto()
	if xuperSign {
		// distinct addresses: initiator first, then auth_require in order
		seen := map[string]bool{}
		var ks []*Key
		for _, k := range signers {
			if seen[k.Address] {
				continue
			}
			seen[k.Address] = true
			ks = append(ks, k)
		}
		xs := &pb.XuperSignature{}
		ps := ks
		privKeys := make([]*ecdsa.PrivateKey, 0, len(ps))
		for _, k := range ps {
			privKeys = append(privKeys, k.Priv)
		}
		sig, err := c.MultiSign(privKeys, digest)
		if err != nil {
			return err
		}
		for _, k := range ps {
			xs.PublicKeys = append(xs.PublicKeys, []byte(k.PubJSON))
		}
		xs.Signature = sig
		tx.XuperSign = xs
	} else {
		for i, k := range signers {
			sig, err := c.SignECDSA(k.Priv, digest)
			if err != nil {
				return err
			}
			si := &protos.SignatureInfo{PublicKey: k.PubJSON, Sign: sig}
			if i == 0 || aclu.IsAccount(tx.Initiator) == 1 {
				// an account initiator is authenticated by the signatures of its members
				tx.InitiatorSigns = append(tx.InitiatorSigns, si)
			}
			if i < len(tx.AuthRequire) {
				tx.AuthRequireSigns = append(tx.AuthRequireSigns, si)
			}
		}
	}
	tx.Txid, err = txhash.MakeTransactionID(tx)
	return err
}

// Wire passes a transaction through marshal + unmarshal.
func Wire(tx *pb.Transaction) (*pb.Transaction, error) {
	buf, err := proto.Marshal(tx)
	if err != nil {
		return nil, err
	}
	out := &pb.Transaction{}
	if err := proto.Unmarshal(buf, out); err != nil {
		return nil, err
	}
	return out, nil
}

// WireBlock passes a block through marshal + unmarshal.
func WireBlock(b *pb.InternalBlock) *pb.InternalBlock {
	buf, err := proto.Marshal(b)
	if err != nil {
		panic(err)
	}
	out := &pb.InternalBlock{}
	if err := proto.Unmarshal(buf, out); err != nil {
		panic(err)
	}
	return out
}

// PreExecResult is what a pre-execution hands back to the client.
type PreExecResult struct {
	Inputs      []*protos.TxInputExt
	Outputs     []*protos.TxOutputExt
	Requests    []*protos.InvokeRequest
	Responses   []*contract.Response
	UtxoInputs  []*protos.TxInput
	UtxoOutputs []*protos.TxOutput
	GasUsed     int64
}

// PreExec runs the engine's real Chain.PreExec (kernel/engines/xuperos/chain.go) on this node's
// ledger, state machine and contract manager (Chain built through the verif export shim).
func (n *Node) PreExec(reqs []*protos.InvokeRequest, initiator string, authRequire []string) (*PreExecResult, error) {
	ir, err := n.Chain().PreExec(n.reqCtx(), reqs, initiator, authRequire)
	if err != nil {
		return nil, err
	}
	res := &PreExecResult{Inputs: ir.Inputs, Outputs: ir.Outputs, Requests: ir.Requests,
		UtxoInputs: ir.UtxoInputs, UtxoOutputs: ir.UtxoOutputs, GasUsed: ir.GasUsed}
	for _, r := range ir.Responses {
		res.Responses = append(res.Responses, &contract.Response{Status: int(r.Status), Message: r.Message, Body: r.Body})
	}
	return res, nil
}

// SubmitTx is the engine's real Chain.SubmitTx (duplicate-id cache, VerifyTx, DoTx).
func (n *Node) SubmitTx(x *pb.Transaction) error {
	if err := n.Chain().SubmitTx(n.reqCtx(), x); err != nil {
		return err
	}
	return nil
}

// VerifReq builds an invoke request for the harness contract.
func VerifReq(contractName, prog string) *protos.InvokeRequest {
	return &protos.InvokeRequest{ModuleName: "xkernel", ContractName: contractName, MethodName: VerifMethod,
		Args: map[string][]byte{"prog": []byte(prog)}}
}
