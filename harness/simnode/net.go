package simnode

// SimNet: the network a simulated cluster runs on. It answers the one request the engine's
// receive path makes while a block's ancestors are missing (GET_BLOCK, served from the peers'
// ledgers exactly as the engine's own handler serves it: reader.QueryBlock + p2p.NewMessage, and
// decoded by the requester with p2p.Unmarshal after a trip through the wire encoding). Everything
// else the miner loop would broadcast is driven explicitly by the scenario.

import (
	"errors"
	"sync"

	"github.com/golang/protobuf/proto"

	xctx "github.com/xuperchain/xupercore/kernel/common/xcontext"
	"github.com/xuperchain/xupercore/kernel/engines/xuperos/reader"
	"github.com/xuperchain/xupercore/kernel/engines/xuperos/xpb"
	nctx "github.com/xuperchain/xupercore/kernel/network/context"
	"github.com/xuperchain/xupercore/kernel/network/p2p"
	pb "github.com/xuperchain/xupercore/protos"
)

type SimNet struct {
	mu    sync.Mutex
	Self  string
	Peers []*Node
	// Tamper, when set, may replace what a peer serves (hostile peer); nil = honest
	Tamper func(id []byte, honest *xpb.BlockInfo) *xpb.BlockInfo
	// Down, when set, makes every request fail (partition)
	Down     bool
	Requests int
	Served   int
}

func (n *SimNet) Start() {}
func (n *SimNet) Stop()  {}
func (n *SimNet) SendMessage(xctx.XContext, *pb.XuperMessage, ...p2p.OptionFunc) error {
	return nil
}
func (n *SimNet) NewSubscriber(pb.XuperMessage_MessageType, interface{}, ...p2p.SubscriberOption) p2p.Subscriber {
	return nil
}
func (n *SimNet) Register(p2p.Subscriber) error   { return nil }
func (n *SimNet) UnRegister(p2p.Subscriber) error { return nil }
func (n *SimNet) Context() *nctx.NetCtx           { return nil }
func (n *SimNet) PeerInfo() pb.PeerInfo           { return pb.PeerInfo{Account: n.Self} }

func (n *SimNet) SendMessageWithResponse(ctx xctx.XContext, msg *pb.XuperMessage, _ ...p2p.OptionFunc) ([]*pb.XuperMessage, error) {
	n.mu.Lock()
	n.Requests++
	down, peers, tamper := n.Down, append([]*Node{}, n.Peers...), n.Tamper
	n.mu.Unlock()
	if down {
		return nil, errors.New("simnet: partitioned")
	}
	if msg.GetHeader().GetType() != pb.XuperMessage_GET_BLOCK {
		return nil, errors.New("simnet: request type not served")
	}
	var in xpb.BlockID
	if err := p2p.Unmarshal(msg, &in); err != nil {
		return nil, err
	}
	var out []*pb.XuperMessage
	for _, p := range peers {
		info, err := reader.NewLedgerReader(p.chainCtx(K(0)), p.reqCtx()).QueryBlock(in.Blockid, in.NeedContent)
		et := pb.XuperMessage_SUCCESS
		if err != nil {
			et = pb.XuperMessage_BLOCKCHAIN_NOTEXIST
		}
		if err == nil && tamper != nil {
			info = tamper(in.Blockid, proto.Clone(info).(*xpb.BlockInfo))
		}
		resp := p2p.NewMessage(p2p.GetRespMessageType(msg.GetHeader().GetType()), info,
			p2p.WithBCName(msg.GetHeader().GetBcname()), p2p.WithErrorType(et), p2p.WithLogId(msg.GetHeader().GetLogid()))
		// through the wire encoding, as between two processes
		raw, merr := proto.Marshal(resp)
		if merr != nil {
			continue
		}
		var back pb.XuperMessage
		if proto.Unmarshal(raw, &back) != nil {
			continue
		}
		out = append(out, &back)
		if err == nil {
			n.mu.Lock()
			n.Served++
			n.mu.Unlock()
		}
	}
	if len(out) == 0 {
		return nil, errors.New("simnet: no peer answered")
	}
	return out, nil
}
