package simnode

import (
	"crypto/ecdsa"
	"fmt"
	"sync"

	cryptoClient "github.com/xuperchain/xupercore/lib/crypto/client"
	cryptoBase "github.com/xuperchain/xupercore/lib/crypto/client/base"
)

// Key is one deterministic test identity.
type Key struct {
	Name     string
	Address  string
	PubJSON  string
	PrivJSON string
	Priv     *ecdsa.PrivateKey
}

var (
	keyOnce sync.Once
	keys    []*Key
	crypt   cryptoBase.CryptoClient
)

// NumKeys is the number of fixed identities.
const NumKeys = 10

// Crypto returns the shared default crypto client.
func Crypto() cryptoBase.CryptoClient {
	initKeys()
	return crypt
}

// Keys returns the fixed identities (derived from fixed seeds, so identical in every process).
func Keys() []*Key {
	initKeys()
	return keys
}

// K returns identity i.
func K(i int) *Key { return Keys()[i] }

// KeyByAddr finds an identity by address (nil if unknown).
func KeyByAddr(addr string) *Key {
	for _, k := range Keys() {
		if k.Address == addr {
			return k
		}
	}
	return nil
}

func initKeys() {
	keyOnce.Do(func() {
		c, err := cryptoClient.CreateCryptoClient(cryptoClient.CryptoTypeDefault)
		if err != nil {
			panic(err)
		}
		crypt = c
		for i := 0; i < NumKeys; i++ {
			seed := []byte(fmt.Sprintf("verif-harness-fixed-seed-%02d-0123456789abcdef0123456789abcdef", i))
			priv, err := c.GenerateKeyBySeed(seed)
			if err != nil {
				panic(err)
			}
			addr, err := c.GetAddressFromPublicKey(&priv.PublicKey)
			if err != nil {
				panic(err)
			}
			pub, err := c.GetEcdsaPublicKeyJsonFormatStr(priv)
			if err != nil {
				panic(err)
			}
			pj, err := c.GetEcdsaPrivateKeyJsonFormatStr(priv)
			if err != nil {
				panic(err)
			}
			keys = append(keys, &Key{Name: fmt.Sprintf("k%d", i), Address: addr, PubJSON: pub, PrivJSON: pj, Priv: priv})
		}
	})
}
