package simnode

import (
	"math/big"
	"testing"

	pb "github.com/xuperchain/xupercore/bcs/ledger/xledger/xldgpb"
	"github.com/xuperchain/xupercore/protos"
)

func TestSmoke(t *testing.T) {
	n, err := NewNode(DefaultConfig())
	if err != nil {
		t.Fatal(err)
	}
	bal, _ := n.State.GetBalance(K(0).Address)
	if bal.String() != "1000000" {
		t.Fatalf("balance %s", bal)
	}
	ins, _, total, err := n.State.SelectUtxos(K(0).Address, big.NewInt(10), false, false)
	if err != nil {
		t.Fatal(err)
	}
	tx, err := BuildTx(TxSpec{Initiator: K(0).Address, Signers: []*Key{K(0)}, Inputs: ins,
		Outputs: []Out{{To: K(1).Address, Amount: big.NewInt(10)}, {To: K(0).Address, Amount: new(big.Int).Sub(total, big.NewInt(10))}},
		Nonce:   "n1", Timestamp: 1})
	if err != nil {
		t.Fatal(err)
	}
	ok, err := n.State.VerifyTx(tx)
	if !ok || err != nil {
		t.Fatalf("verify %v %v %v", ok, err, n.Log.Tail(5))
	}
	if err := n.State.DoTx(tx); err != nil {
		t.Fatal(err)
	}
	// contract tx
	p := (&ProgBuilder{}).Put("vb0", []byte("a"), []byte("1")).Get("vb0", []byte("a")).Scan("vb0", []byte(""), []byte("~"), -1)
	r2, err := n.PreExec([]*protos.InvokeRequest{VerifReq(VerifContract, p.String())}, K(1).Address, []string{K(1).Address})
	if err != nil {
		t.Fatal(err, n.Log.Tail(5))
	}
	t.Logf("resp %s in=%d out=%d", r2.Responses[0].Body, len(r2.Inputs), len(r2.Outputs))
	ctx, err := BuildTx(TxSpec{Initiator: K(1).Address, Signers: []*Key{K(1)}, InExt: r2.Inputs, OutExt: r2.Outputs,
		Requests: r2.Requests, Nonce: "n2", Timestamp: 2})
	if err != nil {
		t.Fatal(err)
	}
	ok, err = n.State.VerifyTx(ctx)
	if !ok || err != nil {
		t.Fatalf("verify contract tx %v %v %v", ok, err, n.Log.Tail(5))
	}
	if err := n.State.DoTx(ctx); err != nil {
		t.Fatal(err)
	}
	pool, _ := n.State.GetUnconfirmedTx(false)
	if len(pool) != 2 {
		t.Fatalf("pool %d", len(pool))
	}
	b, err := n.FormatBlock(n.StateTip(), 1, K(0), 100, pool, true)
	if err != nil {
		t.Fatal(err)
	}
	// replica that never saw the pool
	rep, err := NewNode(DefaultConfig())
	if err != nil {
		t.Fatal(err)
	}
	if st := rep.Confirm(b); !st.Succ {
		t.Fatalf("confirm on replica: %+v %v", st, rep.Log.Tail(5))
	}
	if err := rep.Walk(b.Blockid, false); err != nil {
		t.Fatalf("walk: %v %v", err, rep.Log.Tail(10))
	}
	if st := n.Confirm(b); !st.Succ {
		t.Fatalf("confirm: %+v", st)
	}
	if err := n.State.PlayForMiner(b.Blockid); err != nil {
		t.Fatal(err)
	}
	d := Observe(n).Diff(Observe(rep))
	if len(d) != 0 {
		t.Fatalf("diff: %v", d)
	}
	tw, err := n.Twin()
	if err != nil {
		t.Fatal(err)
	}
	if d := Observe(n).Diff(Observe(tw)); len(d) != 0 {
		t.Fatalf("twin diff: %v", d)
	}
	// undo
	if err := rep.Walk(rep.Root(), false); err != nil {
		t.Fatal(err)
	}
	fresh, _ := NewNode(DefaultConfig())
	if d := Observe(fresh).Diff(Observe(rep)); len(d) != 0 {
		t.Fatalf("undo diff: %v", d)
	}
	_ = pb.Transaction{}
}
