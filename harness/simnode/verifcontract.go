package simnode

import (
	"encoding/hex"
	"encoding/json"
	"errors"
	"fmt"
	"math/big"
	"strconv"
	"strings"

	"github.com/xuperchain/xupercore/kernel/contract"
	"github.com/xuperchain/xupercore/protos"
)

// Names of the two harness kernel contracts. Both run the same interpreter; having two
// lets programs make nested cross-contract calls.
const (
	VerifContract  = "$verif"
	VerifContract2 = "$verif2"
	VerifMethod    = "run"
)

// Program text: one instruction per line, fields separated by one space; keys / values /
// nested programs are hex encoded ("-" stands for nil, "" impossible: use "_" for empty).
//
//	get B K            read key, append result to the response body
//	put B K V          write
//	del B K            delete
//	scan B LO HI N     range scan, stop after N items (N<0: all); "-" bound = nil
//	call C PROG        nested call of contract C with hex(PROG); failure aborts unless...
//	trycall C PROG     nested call whose failure is swallowed
//	transfer FROM TO AMT   contract-originated token transfer
//	trytransfer FROM TO AMT   the same, a failure (not enough funds) is noted and the call carries on
//	event NAME BODY
//	use CPU MEM DISK XFEE  account resource use
//	fail               return an error
//	status N           finish with response status N
type instr struct {
	op   string
	args []string
}

func encField(b []byte) string {
	if b == nil {
		return "-"
	}
	if len(b) == 0 {
		return "_"
	}
	return hex.EncodeToString(b)
}

func decField(s string) ([]byte, error) {
	switch s {
	case "-":
		return nil, nil
	case "_":
		return []byte{}, nil
	}
	return hex.DecodeString(s)
}

// ProgBuilder assembles a program.
type ProgBuilder struct{ lines []string }

func (p *ProgBuilder) Get(b string, k []byte) *ProgBuilder {
	p.lines = append(p.lines, fmt.Sprintf("get %s %s", b, encField(k)))
	return p
}
func (p *ProgBuilder) Put(b string, k, v []byte) *ProgBuilder {
	p.lines = append(p.lines, fmt.Sprintf("put %s %s %s", b, encField(k), encField(v)))
	return p
}
func (p *ProgBuilder) Del(b string, k []byte) *ProgBuilder {
	p.lines = append(p.lines, fmt.Sprintf("del %s %s", b, encField(k)))
	return p
}
func (p *ProgBuilder) Scan(b string, lo, hi []byte, n int) *ProgBuilder {
	p.lines = append(p.lines, fmt.Sprintf("scan %s %s %s %d", b, encField(lo), encField(hi), n))
	return p
}
func (p *ProgBuilder) Call(c string, prog string, try bool) *ProgBuilder {
	op := "call"
	if try {
		op = "trycall"
	}
	p.lines = append(p.lines, fmt.Sprintf("%s %s %s", op, c, encField([]byte(prog))))
	return p
}
func (p *ProgBuilder) Transfer(from, to string, amt string) *ProgBuilder {
	p.lines = append(p.lines, fmt.Sprintf("transfer %s %s %s", encField([]byte(from)), encField([]byte(to)), amt))
	return p
}
func (p *ProgBuilder) TryTransfer(from, to string, amt string) *ProgBuilder {
	p.lines = append(p.lines, fmt.Sprintf("trytransfer %s %s %s", encField([]byte(from)), encField([]byte(to)), amt))
	return p
}
func (p *ProgBuilder) Event(name string, body []byte) *ProgBuilder {
	p.lines = append(p.lines, fmt.Sprintf("event %s %s", encField([]byte(name)), encField(body)))
	return p
}
func (p *ProgBuilder) Use(cpu, mem, disk, xfee int64) *ProgBuilder {
	p.lines = append(p.lines, fmt.Sprintf("use %d %d %d %d", cpu, mem, disk, xfee))
	return p
}
func (p *ProgBuilder) Fail() *ProgBuilder { p.lines = append(p.lines, "fail"); return p }
func (p *ProgBuilder) Status(n int) *ProgBuilder {
	p.lines = append(p.lines, fmt.Sprintf("status %d", n))
	return p
}
func (p *ProgBuilder) String() string { return strings.Join(p.lines, "\n") }
func (p *ProgBuilder) Len() int       { return len(p.lines) }

func parseProg(s string) ([]instr, error) {
	out := []instr{}
	for _, ln := range strings.Split(s, "\n") {
		if ln == "" {
			continue
		}
		f := strings.Split(ln, " ")
		out = append(out, instr{op: f[0], args: f[1:]})
	}
	return out, nil
}

// RegisterVerifContract installs the interpreter under both contract names.
func RegisterVerifContract(reg contract.KernRegistry) {
	reg.RegisterKernMethod(VerifContract, VerifMethod, runVerif)
	reg.RegisterKernMethod(VerifContract2, VerifMethod, runVerif)
	reg.RegisterKernMethod(VerifContract, "timer", runVerifTimer)
}

// runVerifTimer is the entry point used by $timer_task triggers: the trigger's args arrive
// as JSON under "args"; {"prog": "..."} is run by the interpreter.
func runVerifTimer(ctx contract.KContext) (*contract.Response, error) {
	var a map[string]string
	if err := json.Unmarshal(ctx.Args()["args"], &a); err != nil {
		return nil, err
	}
	return runProg(ctx, a["prog"])
}

func runVerif(ctx contract.KContext) (*contract.Response, error) {
	return runProg(ctx, string(ctx.Args()["prog"]))
}

func runProg(ctx contract.KContext, text string) (*contract.Response, error) {
	prog, err := parseProg(text)
	if err != nil {
		return nil, err
	}
	var body strings.Builder
	status := contract.StatusOK
	for i, in := range prog {
		a := in.args
		need := func(n int) error {
			if len(a) != n {
				return fmt.Errorf("instr %d %s: want %d args", i, in.op, n)
			}
			return nil
		}
		switch in.op {
		case "get":
			if err := need(2); err != nil {
				return nil, err
			}
			k, derr := decField(a[1])
			if derr != nil {
				return nil, derr
			}
			v, err := ctx.Get(a[0], k)
			if err != nil {
				fmt.Fprintf(&body, "get:%s:%s:ERR(%s);", a[0], a[1], err.Error())
			} else {
				fmt.Fprintf(&body, "get:%s:%s:%s;", a[0], a[1], encField(v))
			}
		case "put":
			if err := need(3); err != nil {
				return nil, err
			}
			k, derr := decField(a[1])
			v, derr2 := decField(a[2])
			if derr != nil || derr2 != nil {
				return nil, errors.New("bad hex field")
			}
			if err := ctx.Put(a[0], k, v); err != nil {
				return nil, err
			}
		case "del":
			if err := need(2); err != nil {
				return nil, err
			}
			k, derr := decField(a[1])
			if derr != nil {
				return nil, derr
			}
			if err := ctx.Del(a[0], k); err != nil {
				return nil, err
			}
		case "scan":
			if err := need(4); err != nil {
				return nil, err
			}
			lo, e1 := decField(a[1])
			hi, e2 := decField(a[2])
			n, e3 := strconv.Atoi(a[3])
			if e1 != nil || e2 != nil || e3 != nil {
				return nil, errors.New("bad scan arguments")
			}
			it, err := ctx.Select(a[0], lo, hi)
			if err != nil {
				fmt.Fprintf(&body, "scan:ERR(%s);", err.Error())
				break
			}
			body.WriteString("scan:")
			cnt := 0
			for (n < 0 || cnt < n) && it.Next() {
				fmt.Fprintf(&body, "%s=%s,", encField(it.Key()), encField(it.Value()))
				cnt++
			}
			if it.Error() != nil {
				fmt.Fprintf(&body, "ITERERR(%s)", it.Error().Error())
			}
			it.Close()
			body.WriteString(";")
		case "call", "trycall":
			if err := need(2); err != nil {
				return nil, err
			}
			p, derr := decField(a[1])
			if derr != nil {
				return nil, derr
			}
			resp, err := ctx.Call("xkernel", a[0], VerifMethod, map[string][]byte{"prog": p})
			if err != nil {
				if in.op == "call" {
					return nil, fmt.Errorf("nested call failed: %v", err)
				}
				body.WriteString("call:ERR;")
				break
			}
			fmt.Fprintf(&body, "call:%d:%s;", resp.Status, hex.EncodeToString(resp.Body))
			if resp.Status >= 400 && in.op == "call" {
				return nil, errors.New("nested call returned error status")
			}
		case "transfer", "trytransfer":
			if err := need(3); err != nil {
				return nil, err
			}
			from, e1 := decField(a[0])
			to, e2 := decField(a[1])
			if e1 != nil || e2 != nil {
				return nil, errors.New("bad transfer arguments")
			}
			amt, ok := new(big.Int).SetString(a[2], 10)
			if !ok {
				return nil, errors.New("bad amount")
			}
			if err := ctx.Transfer(string(from), string(to), amt); err != nil {
				if in.op != "trytransfer" {
					return nil, err
				}
				fmt.Fprintf(&body, "transfer-failed;") // the contract falls back and carries on
			}
		case "event":
			if err := need(2); err != nil {
				return nil, err
			}
			name, e1 := decField(a[0])
			b, e2 := decField(a[1])
			if e1 != nil || e2 != nil {
				return nil, errors.New("bad event arguments")
			}
			ctx.AddEvent(&protos.ContractEvent{Contract: VerifContract, Name: string(name), Body: b})
		case "use":
			if err := need(4); err != nil {
				return nil, err
			}
			var l contract.Limits
			var e1, e2, e3, e4 error
			l.Cpu, e1 = strconv.ParseInt(a[0], 10, 64)
			l.Memory, e2 = strconv.ParseInt(a[1], 10, 64)
			l.Disk, e3 = strconv.ParseInt(a[2], 10, 64)
			l.XFee, e4 = strconv.ParseInt(a[3], 10, 64)
			if e1 != nil || e2 != nil || e3 != nil || e4 != nil {
				return nil, errors.New("bad use arguments")
			}
			ctx.AddResourceUsed(l)
		case "fail":
			return nil, errors.New("verif program failed on purpose")
		case "status":
			if err := need(1); err != nil {
				return nil, err
			}
			var serr error
			if status, serr = strconv.Atoi(a[0]); serr != nil {
				return nil, serr
			}
		default:
			return nil, fmt.Errorf("unknown instr %q", in.op)
		}
	}
	return &contract.Response{Status: status, Message: "done", Body: []byte(body.String())}, nil
}
