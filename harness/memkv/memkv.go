// Package memkv is an in-memory storage engine registered with xupercore's kvdb
// extension point (engine name "verifmem"). It models exactly the atomicity the
// code under test relies on: a single Put/Delete is atomic, a Batch.Write is
// atomic, iterators are snapshots taken at creation. On top of that it records
// every successful write in a per-world log (shared sequence counter across the
// ledger and the state database), can fail the k-th write, and can rebuild the
// content "as of write k" (crash image).
package memkv

import (
	"bytes"
	"errors"
	"fmt"
	"math/rand"
	"runtime"
	"sort"
	"strings"
	"sync"
	"sync/atomic"
	"time"

	"github.com/xuperchain/xupercore/lib/storage/kvdb"
)

const EngineName = "verifmem"

// ErrInjected is returned by a write that the harness asked to fail.
var ErrInjected = errors.New("verifmem: injected write failure")

var errNotFound = errors.New("verifmem: not found")

// ErrInjectedRead is returned by a read (Get / Has / iterator) that the harness asked to fail: a
// transient storage error, NOT a "not found" answer (kvdb.ErrNotFound is false for it).
var ErrInjectedRead = errors.New("verifmem: injected read failure (input/output error)")

// Op is one mutation inside a write.
type Op struct {
	Del bool
	Key string
	Val []byte
}

// WriteRec is one successful atomic write.
type WriteRec struct {
	Seq   int    // 1-based global sequence number inside the world
	DB    string // path of the database relative to the world root
	Batch bool
	Ops   []Op
}

// World is one simulated data directory: a set of databases under a root path.
type World struct {
	mu     sync.Mutex
	root   string
	stores map[string]*store // key: path relative to root
	log    []WriteRec
	base   map[string]map[string][]byte // content when logging started (per db)
	// fault injection
	attempts int // number of write attempts since ArmFail / ResetAttempts
	failAt   int // fail the attempt with this 1-based number (0 = never)
	failed   int // number of injected failures so far
	record   bool
	// read fault injection (default off: readFailAt = 0)
	reads      int // number of reads (Get / Has / iterator creation) since ArmFailRead / ResetReads
	readFailAt int // fail the read with this 1-based number (0 = never)
	readFailed int // number of injected read failures so far
}

type store struct {
	data map[string][]byte
}

var (
	regMu  sync.Mutex
	worlds = map[string]*World{}
	nextID int
)

// Storage latency jitter: every read, iterator creation and write of a world is a point where
// a real node would wait for the disk, i.e. an existing suspension point between the check and
// the act of the code above. With jitter on, such a point yields the processor or sleeps a few
// microseconds with a small probability, which widens the set of interleavings concurrent
// workloads reach (C12) without touching the code under test. The decisions come from one
// seeded generator, so a run's jitter pattern is a function of the seed and the arrival order.
var (
	jitterOn  int32
	jitterMu  sync.Mutex
	jitterRng *rand.Rand
	jitterPer int // 1 in jitterPer points is disturbed
	jitterHit int64
)

// SetJitter switches latency jitter on (per > 0: one in `per` storage operations) or off (per = 0).
func SetJitter(seed int64, per int) {
	jitterMu.Lock()
	defer jitterMu.Unlock()
	if per <= 0 {
		atomic.StoreInt32(&jitterOn, 0)
		return
	}
	jitterRng = rand.New(rand.NewSource(seed))
	jitterPer = per
	atomic.StoreInt32(&jitterOn, 1)
}

// JitterHits is the number of storage operations that were disturbed so far.
func JitterHits() int64 { return atomic.LoadInt64(&jitterHit) }

func jitter() {
	if atomic.LoadInt32(&jitterOn) == 0 {
		return
	}
	jitterMu.Lock()
	x := jitterRng.Intn(jitterPer * 4)
	jitterMu.Unlock()
	switch {
	case x == 0:
		time.Sleep(time.Duration(20+x%7*30) * time.Microsecond)
	case x == 1:
		time.Sleep(200 * time.Microsecond)
	case x < 4:
		runtime.Gosched()
	default:
		return
	}
	atomic.AddInt64(&jitterHit, 1)
}

func init() {
	kvdb.Register(EngineName, func(p *kvdb.KVParameter) (kvdb.Database, error) {
		return open(p.GetDBPath())
	})
}

// NewWorld creates an empty world with a fresh unique root path.
func NewWorld() *World {
	regMu.Lock()
	defer regMu.Unlock()
	nextID++
	root := fmt.Sprintf("/verifmem/w%d", nextID)
	w := &World{root: root, stores: map[string]*store{}, record: true}
	worlds[root] = w
	return w
}

// Root is the path prefix under which this world's databases live.
func (w *World) Root() string { return w.root }

// Drop removes the world from the registry (its memory becomes collectable).
func (w *World) Drop() {
	regMu.Lock()
	delete(worlds, w.root)
	regMu.Unlock()
}

func findWorld(path string) (*World, string) {
	regMu.Lock()
	defer regMu.Unlock()
	for root, w := range worlds {
		if strings.HasPrefix(path, root+"/") {
			return w, path[len(root)+1:]
		}
	}
	return nil, ""
}

func open(path string) (kvdb.Database, error) {
	w, rel := findWorld(path)
	if w == nil {
		return nil, fmt.Errorf("verifmem: no world for path %s", path)
	}
	w.mu.Lock()
	defer w.mu.Unlock()
	if _, ok := w.stores[rel]; !ok {
		w.stores[rel] = &store{data: map[string][]byte{}}
	}
	return &db{w: w, rel: rel}, nil
}

func copyData(m map[string][]byte) map[string][]byte {
	c := make(map[string][]byte, len(m))
	for k, v := range m {
		c[k] = v // values are never mutated in place
	}
	return c
}

// Clone returns a new world with a copy of the current content and an empty log.
func (w *World) Clone() *World {
	n := NewWorld()
	w.mu.Lock()
	defer w.mu.Unlock()
	for rel, s := range w.stores {
		n.stores[rel] = &store{data: copyData(s.data)}
	}
	return n
}

// StartLog forgets the log so far and remembers the current content as base for ImageAt.
func (w *World) StartLog() {
	w.mu.Lock()
	defer w.mu.Unlock()
	w.log = nil
	w.base = map[string]map[string][]byte{}
	for rel, s := range w.stores {
		w.base[rel] = copyData(s.data)
	}
}

// Log returns a copy of the write log.
func (w *World) Log() []WriteRec {
	w.mu.Lock()
	defer w.mu.Unlock()
	return append([]WriteRec(nil), w.log...)
}

// LogLen is the number of successful writes recorded since StartLog.
func (w *World) LogLen() int {
	w.mu.Lock()
	defer w.mu.Unlock()
	return len(w.log)
}

// ImageAt returns a new world whose content is base + the first k logged writes.
func (w *World) ImageAt(k int) *World {
	n := NewWorld()
	w.mu.Lock()
	defer w.mu.Unlock()
	for rel, d := range w.base {
		n.stores[rel] = &store{data: copyData(d)}
	}
	for i := 0; i < k && i < len(w.log); i++ {
		rec := w.log[i]
		s, ok := n.stores[rec.DB]
		if !ok {
			s = &store{data: map[string][]byte{}}
			n.stores[rec.DB] = s
		}
		for _, op := range rec.Ops {
			if op.Del {
				delete(s.data, op.Key)
			} else {
				s.data[op.Key] = op.Val
			}
		}
	}
	return n
}

// ArmFail makes the n-th write attempt from now on fail (n >= 1); 0 disarms.
func (w *World) ArmFail(n int) {
	w.mu.Lock()
	w.attempts = 0
	w.failAt = n
	w.mu.Unlock()
}

// Attempts returns the number of write attempts since the last ArmFail.
func (w *World) Attempts() int {
	w.mu.Lock()
	defer w.mu.Unlock()
	return w.attempts
}

// InjectedFailures returns how many writes have been failed on purpose.
func (w *World) InjectedFailures() int {
	w.mu.Lock()
	defer w.mu.Unlock()
	return w.failed
}

// ArmFailRead makes the k-th read from now on (Get, Has or iterator creation, on any database of the
// world) fail with ErrInjectedRead (k >= 1); 0 disarms. The read counter restarts at 0 either way.
// Only that one read fails: the next one works again (a transient read error).
func (w *World) ArmFailRead(k int) {
	w.mu.Lock()
	w.reads = 0
	w.readFailAt = k
	w.mu.Unlock()
}

// Reads returns the number of reads since the last ArmFailRead (or since the world was created).
func (w *World) Reads() int {
	w.mu.Lock()
	defer w.mu.Unlock()
	return w.reads
}

// InjectedReadFailures returns how many reads have been failed on purpose.
func (w *World) InjectedReadFailures() int {
	w.mu.Lock()
	defer w.mu.Unlock()
	return w.readFailed
}

// readFault counts one read and says whether it is the one to fail; the caller holds w.mu.
func (w *World) readFault() bool {
	w.reads++
	if w.readFailAt > 0 && w.reads == w.readFailAt {
		w.readFailed++
		return true
	}
	return false
}

// Dump returns a copy of one database's content.
func (w *World) Dump(rel string) map[string][]byte {
	w.mu.Lock()
	defer w.mu.Unlock()
	s := w.stores[rel]
	if s == nil {
		return nil
	}
	return copyData(s.data)
}

// DBs lists the databases of the world.
func (w *World) DBs() []string {
	w.mu.Lock()
	defer w.mu.Unlock()
	out := []string{}
	for rel := range w.stores {
		out = append(out, rel)
	}
	sort.Strings(out)
	return out
}

// Equal reports whether two worlds hold identical content (used by self checks and
// by the "failed operation wrote nothing" oracle).
func (w *World) Equal(o *World) (bool, string) {
	a := map[string]map[string][]byte{}
	for _, rel := range w.DBs() {
		a[rel] = w.Dump(rel)
	}
	for _, rel := range o.DBs() {
		bd := o.Dump(rel)
		ad := a[rel]
		if len(ad) != len(bd) {
			return false, fmt.Sprintf("db %s: %d vs %d keys", rel, len(ad), len(bd))
		}
		for k, v := range bd {
			if av, ok := ad[k]; !ok || !bytes.Equal(av, v) {
				return false, fmt.Sprintf("db %s key %q differs", rel, k)
			}
		}
		delete(a, rel)
	}
	for rel, ad := range a {
		if len(ad) != 0 {
			return false, fmt.Sprintf("db %s only on one side", rel)
		}
	}
	return true, ""
}

// apply performs one atomic write under the world lock; fault injection happens here.
func (w *World) apply(rel string, batch bool, ops []Op) error {
	w.mu.Lock()
	defer w.mu.Unlock()
	w.attempts++
	if w.failAt > 0 && w.attempts == w.failAt {
		w.failed++
		return ErrInjected
	}
	s := w.stores[rel]
	if s == nil {
		s = &store{data: map[string][]byte{}}
		w.stores[rel] = s
	}
	for _, op := range ops {
		if op.Del {
			delete(s.data, op.Key)
		} else {
			s.data[op.Key] = op.Val
		}
	}
	if w.record {
		cp := make([]Op, len(ops))
		copy(cp, ops)
		w.log = append(w.log, WriteRec{Seq: len(w.log) + 1, DB: rel, Batch: batch, Ops: cp})
	}
	return nil
}

// ---- kvdb.Database ----

type db struct {
	w   *World
	rel string
}

func (d *db) Open(path string, options map[string]interface{}) error { return nil }
func (d *db) Close()                                                 {}

func (d *db) Put(key, value []byte) error {
	return d.w.apply(d.rel, false, []Op{{Key: string(key), Val: append([]byte{}, value...)}})
}

func (d *db) Delete(key []byte) error {
	return d.w.apply(d.rel, false, []Op{{Del: true, Key: string(key)}})
}

func (d *db) Get(key []byte) ([]byte, error) {
	jitter()
	d.w.mu.Lock()
	defer d.w.mu.Unlock()
	if d.w.readFault() {
		return nil, ErrInjectedRead
	}
	v, ok := d.w.stores[d.rel].data[string(key)]
	if !ok {
		return nil, errNotFound
	}
	return append([]byte{}, v...), nil
}

func (d *db) Has(key []byte) (bool, error) {
	d.w.mu.Lock()
	defer d.w.mu.Unlock()
	if d.w.readFault() {
		return false, ErrInjectedRead
	}
	_, ok := d.w.stores[d.rel].data[string(key)]
	return ok, nil
}

func (d *db) NewBatch() kvdb.Batch {
	return &batch{d: d, keys: map[string]bool{}}
}

func (d *db) NewIteratorWithRange(start, limit []byte) kvdb.Iterator {
	return d.iter(start, limit)
}

func (d *db) NewIteratorWithPrefix(prefix []byte) kvdb.Iterator {
	return d.iter(prefix, prefixLimit(prefix))
}

// prefixLimit mirrors goleveldb util.BytesPrefix.
func prefixLimit(prefix []byte) []byte {
	var limit []byte
	for i := len(prefix) - 1; i >= 0; i-- {
		c := prefix[i]
		if c < 0xff {
			limit = make([]byte, i+1)
			copy(limit, prefix)
			limit[i] = c + 1
			break
		}
	}
	return limit
}

func (d *db) iter(start, limit []byte) kvdb.Iterator {
	jitter()
	d.w.mu.Lock()
	defer d.w.mu.Unlock()
	if d.w.readFault() {
		// like goleveldb: the iterator exists, yields nothing and reports the error
		return &iter{pos: -1, err: ErrInjectedRead}
	}
	data := d.w.stores[d.rel].data
	it := &iter{pos: -1}
	for k, v := range data {
		// goleveldb: nil Start = from the beginning, nil Limit = to the end
		if start != nil && k < string(start) {
			continue
		}
		if limit != nil && k >= string(limit) {
			continue
		}
		it.keys = append(it.keys, k)
		_ = v
	}
	sort.Strings(it.keys)
	it.vals = make([][]byte, len(it.keys))
	for i, k := range it.keys {
		it.vals[i] = data[k]
	}
	return it
}

type iter struct {
	keys []string
	vals [][]byte
	pos  int
	err  error // set when the creation of the iterator was failed on purpose
}

func (it *iter) valid() bool { return it.pos >= 0 && it.pos < len(it.keys) }
func (it *iter) Key() []byte {
	if !it.valid() {
		return nil
	}
	return []byte(it.keys[it.pos])
}
func (it *iter) Value() []byte {
	if !it.valid() {
		return nil
	}
	return append([]byte{}, it.vals[it.pos]...)
}
func (it *iter) Next() bool {
	if it.pos < len(it.keys) {
		it.pos++
	}
	return it.valid()
}
func (it *iter) Prev() bool {
	if it.pos >= 0 {
		it.pos--
	}
	return it.valid()
}
func (it *iter) Last() bool   { it.pos = len(it.keys) - 1; return it.valid() }
func (it *iter) First() bool  { it.pos = 0; return it.valid() }
func (it *iter) Error() error { return it.err }
func (it *iter) Release()     {}

// ---- kvdb.Batch ----

type batch struct {
	d    *db
	ops  []Op
	size int
	keys map[string]bool
}

func (b *batch) Put(key, value []byte) error {
	b.ops = append(b.ops, Op{Key: string(key), Val: append([]byte{}, value...)})
	b.size += len(value)
	return nil
}

func (b *batch) Delete(key []byte) error {
	b.ops = append(b.ops, Op{Del: true, Key: string(key)})
	b.size += len(key)
	return nil
}

func (b *batch) PutIfAbsent(key, value []byte) error {
	if !b.keys[string(key)] {
		b.ops = append(b.ops, Op{Key: string(key), Val: append([]byte{}, value...)})
		b.size += len(value)
		b.keys[string(key)] = true
		return nil
	}
	return fmt.Errorf("duplicated key in batch, (HEX) %x", key)
}

func (b *batch) Exist(key []byte) bool { return b.keys[string(key)] }
func (b *batch) ValueSize() int        { return b.size }
func (b *batch) Reset() {
	b.ops = nil
	b.size = 0
	b.keys = map[string]bool{}
}

// Write applies the batch atomically. Like goleveldb, the batch keeps its
// content afterwards (a second Write replays it).
func (b *batch) Write() error {
	jitter()
	err := b.d.w.apply(b.d.rel, true, b.ops)
	jitter()
	return err
}
