// Package sched runs a handful of goroutines of the code under test under a schedule chosen by
// the monitor. The code under test calls a yield hook (build tag verif) between the atomic steps
// of its admission protocol; a registered goroutine parks there until the controller releases it,
// so that exactly one registered goroutine runs between two decisions. Goroutines that are not
// registered (the node's own background work) pass through the hook untouched.
//
// A released goroutine that neither reaches its next yield point nor finishes within a short
// grace period is taken to be blocked on a real lock of the code under test (e.g. a block play
// waiting for the exclusive state lock that parked admissions share); the controller then
// releases another goroutine and the blocked one parks normally when it gets that far. This is the
// only place where the wall clock enters, and it never enters a verdict: a schedule is just a way
// of producing an execution, the oracles judge the execution.
package sched

import (
	"bytes"
	"runtime"
	"strconv"
	"sync"
	"time"
)

const (
	stRunning = iota
	stParked
	stDone
)

type thr struct {
	id    int
	state int
	point string
	wake  chan struct{}
	since time.Time // when it was released
	// blocked: released, did not reach a yield point within the grace period (waits for a real lock)
	blocked bool
}

// Step is one decision of an executed schedule.
type Step struct {
	Runnable []int // ids parked at the decision
	Chosen   int
	Point    string // where the chosen goroutine was parked
}

// Controller schedules one run.
type Controller struct {
	mu      sync.Mutex
	byGoid  map[int64]*thr
	threads []*thr
	Points  map[string]int // yield point -> times a registered goroutine parked there
	Trace   []Step
	Blocked int // times a released goroutine was taken to be blocked
	Hung    bool
	grace   time.Duration
}

func goid() int64 {
	var buf [64]byte
	n := runtime.Stack(buf[:], false)
	// "goroutine 123 [running]:"
	b := buf[:n]
	b = b[len("goroutine "):]
	if i := bytes.IndexByte(b, ' '); i > 0 {
		id, _ := strconv.ParseInt(string(b[:i]), 10, 64)
		return id
	}
	return -1
}

// New returns a controller; grace is how long a released goroutine may run before it is taken
// to be blocked.
func New(grace time.Duration) *Controller {
	return &Controller{byGoid: map[int64]*thr{}, Points: map[string]int{}, grace: grace}
}

// Yield is the function to install as the yield hook.
func (c *Controller) Yield(point string) {
	g := goid()
	c.mu.Lock()
	t := c.byGoid[g]
	if t == nil {
		c.mu.Unlock()
		return
	}
	t.state, t.point = stParked, point
	c.Points[point]++
	c.mu.Unlock()
	<-t.wake
}

// Chooser picks the next goroutine among the parked ones; last is the one released before
// (-1 at the start), step the decision index.
type Chooser func(step int, runnable []int, last int) int

// Run starts one goroutine per function, parks each before its first instruction and then lets
// choose drive them until all have finished. It returns false when the run had to be abandoned
// (nothing runnable and nothing finishing for the watchdog period).
func (c *Controller) Run(fns []func(), choose Chooser, watchdog time.Duration) bool {
	var wg sync.WaitGroup
	for i, f := range fns {
		t := &thr{id: i, state: stRunning, wake: make(chan struct{}, 1), since: time.Now()}
		c.mu.Lock()
		c.threads = append(c.threads, t)
		c.mu.Unlock()
		wg.Add(1)
		go func(t *thr, f func()) {
			defer wg.Done()
			c.mu.Lock()
			c.byGoid[goid()] = t
			c.mu.Unlock()
			c.Yield("start")
			defer func() {
				c.mu.Lock()
				t.state = stDone
				c.mu.Unlock()
			}()
			f()
		}(t, f)
	}
	last := -1
	idle := time.Now()
	for step := 0; ; {
		c.mu.Lock()
		var runnable []int
		running, done := 0, 0
		now := time.Now()
		for _, t := range c.threads {
			switch t.state {
			case stParked:
				runnable = append(runnable, t.id)
			case stDone:
				done++
			case stRunning:
				if !t.blocked && now.Sub(t.since) < c.grace {
					running++
				}
			}
		}
		if done == len(c.threads) {
			c.mu.Unlock()
			break
		}
		if running > 0 || len(runnable) == 0 {
			// somebody is still on its way to the next yield point, or everybody left is blocked /
			// running: look again shortly
			c.mu.Unlock()
			if len(runnable) == 0 && time.Since(idle) > watchdog {
				c.Hung = true
				return false
			}
			if running > 0 {
				runtime.Gosched()
			} else {
				time.Sleep(20 * time.Microsecond)
			}
			continue
		}
		idle = time.Now()
		for _, t := range c.threads {
			if t.state == stRunning && !t.blocked {
				c.Blocked++ // released earlier, still not at a yield point: blocked on a real lock
				t.blocked = true
			}
		}
		pick := choose(step, runnable, last)
		t := c.threads[pick]
		c.Trace = append(c.Trace, Step{Runnable: runnable, Chosen: pick, Point: t.point})
		t.state, t.since, t.blocked = stRunning, time.Now(), false
		c.mu.Unlock()
		t.wake <- struct{}{}
		last = pick
		step++
	}
	wg.Wait()
	return true
}

// Signature is the executed schedule as a string (chosen ids and the points they left).
func (c *Controller) Signature() string {
	var b bytes.Buffer
	for _, s := range c.Trace {
		b.WriteString(strconv.Itoa(s.Chosen))
	}
	return b.String()
}

// ---- choosers ----

// Prefix follows the given choices as long as they are possible and then runs without
// preemption: the goroutine released last continues while it can, else the lowest id.
func Prefix(prefix []int) Chooser {
	return func(step int, runnable []int, last int) int {
		if step < len(prefix) {
			for _, r := range runnable {
				if r == prefix[step] {
					return r
				}
			}
		}
		for _, r := range runnable {
			if r == last {
				return r
			}
		}
		return runnable[0]
	}
}

// Preemptions counts the decisions of a trace at which the goroutine released before was still
// runnable but another one was chosen.
func Preemptions(trace []Step) int {
	n, last := 0, -1
	for _, s := range trace {
		if last >= 0 && s.Chosen != last {
			for _, r := range s.Runnable {
				if r == last {
					n++
					break
				}
			}
		}
		last = s.Chosen
	}
	return n
}

// Explorer enumerates schedules depth-first with a bound on the number of preemptions
// (iterative context bounding): every executed trace proposes, for each of its decisions, the
// alternatives that were runnable there.
type Explorer struct {
	Bound   int
	pending [][]int
	seen    map[string]bool
}

func NewExplorer(bound int) *Explorer {
	return &Explorer{Bound: bound, pending: [][]int{{}}, seen: map[string]bool{"": true}}
}

// Next returns the next prefix to run (nil, false when the bounded space is exhausted).
func (e *Explorer) Next() ([]int, bool) {
	if len(e.pending) == 0 {
		return nil, false
	}
	p := e.pending[len(e.pending)-1]
	e.pending = e.pending[:len(e.pending)-1]
	return p, true
}

// Pending is the number of prefixes waiting.
func (e *Explorer) Pending() int { return len(e.pending) }

// Feed records an executed trace that was produced from a prefix of length plen.
func (e *Explorer) Feed(trace []Step, plen int) {
	for i := len(trace) - 1; i >= plen; i-- {
		for _, alt := range trace[i].Runnable {
			if alt == trace[i].Chosen {
				continue
			}
			np := make([]int, 0, i+1)
			for _, s := range trace[:i] {
				np = append(np, s.Chosen)
			}
			np = append(np, alt)
			// preemptions of the new prefix
			steps := append(append([]Step{}, trace[:i]...), Step{Runnable: trace[i].Runnable, Chosen: alt})
			if Preemptions(steps) > e.Bound {
				continue
			}
			k := key(np)
			if e.seen[k] {
				continue
			}
			e.seen[k] = true
			e.pending = append(e.pending, np)
		}
	}
}

func key(p []int) string {
	b := make([]byte, len(p))
	for i, v := range p {
		b[i] = byte('0' + v)
	}
	return string(b)
}
