// Package corpus builds a node with accounts / contract funds and a set of ACCEPTED
// transactions of every form named by C07 (versions 1-3; address, multi-signer, account
// initiator, account-owned inputs, aggregated XuperSign, contract calls, fee payer,
// contract-originated transfer). C07 mutates them; C09 tampers with the contract ones.
package corpus

import (
	"fmt"
	"math/big"

	pb "github.com/xuperchain/xupercore/bcs/ledger/xledger/xldgpb"
	"github.com/xuperchain/xupercore/protos"

	sn "verif/simnode"
)

// RulelessAccount / ForeignAccount own outputs but have no access-control rule on this chain.
const (
	RulelessAccount = "XC3333333333333333@xuper"
	ForeignAccount  = "XC3333333333333333@hello"
)

// Account is the multi-key account created by the setup block.
const Account = "XC1111111111111111@xuper"

// Item is one accepted transaction plus what is needed to re-sign a variant of it.
type Item struct {
	Name      string
	Tx        *pb.Transaction
	Signers   []*sn.Key
	XuperSign bool
}

// Resign recomputes signatures + id of a (mutated) copy with the item's keys.
func (it Item) Resign(x *pb.Transaction) (*pb.Transaction, error) {
	c := sn.CloneTx(x)
	if err := sn.SignTx(c, it.Signers, it.XuperSign); err != nil {
		return nil, err
	}
	return sn.Wire(c)
}

// World is the prepared node.
type World struct {
	N     *sn.Node
	Items []Item
	nonce int
	// RulelessFunding is the confirmed transaction whose outputs 0 and 1 belong to
	// RulelessAccount (100) and ForeignAccount (200)
	RulelessFunding *pb.Transaction
}

func (w *World) nn() string { w.nonce++; return fmt.Sprintf("corpus-%d", w.nonce) }

func aclJSON(a, b string) []byte {
	return []byte(fmt.Sprintf(`{"pm":{"rule":1,"acceptValue":1.0},"aksWeight":{"%s":0.5,"%s":0.5}}`, a, b))
}

func (w *World) must(x *pb.Transaction, err error, what string) *pb.Transaction {
	if err != nil {
		panic(fmt.Sprintf("corpus: %s: %v", what, err))
	}
	if ok, verr := w.N.State.VerifyTx(x); !ok || verr != nil {
		panic(fmt.Sprintf("corpus: %s does not verify: %v %v", what, verr, w.N.Log.Tail(4)))
	}
	return x
}

func (w *World) sel(addr string, amt int64) ([]*protos.TxInput, *big.Int) {
	ins, _, tot, err := w.N.State.SelectUtxos(addr, big.NewInt(amt), false, false)
	if err != nil {
		panic(fmt.Sprintf("corpus: select %s %d: %v", addr, amt, err))
	}
	return ins, tot
}

func change(outs []sn.Out, to string, total *big.Int, spent int64) []sn.Out {
	rest := new(big.Int).Sub(total, big.NewInt(spent))
	if rest.Sign() > 0 {
		outs = append(outs, sn.Out{To: to, Amount: rest})
	}
	return outs
}

// Build prepares the node (setup block with the account, its funding and the contract's
// funds) and the accepted corpus. gas > 0 makes the chain charge for resources.
func Build(cfg sn.Config) (*World, error) { return BuildOpt(cfg, 7) }

// BuildOpt is Build with the contract's funds split into `coins` outputs (a pre-execution
// locks the contract outputs it selects for a long time).
func BuildOpt(cfg sn.Config, coins int) (w *World, err error) {
	// an honest transaction the node refuses is reported to the caller (the checks that use the
	// corpus then cannot judge: inconclusive), not a crash of the check
	defer func() {
		if p := recover(); p != nil {
			w, err = nil, fmt.Errorf("%v", p)
		}
	}()
	return buildOpt(cfg, coins)
}

func buildOpt(cfg sn.Config, coins int) (*World, error) {
	n, err := sn.NewNode(cfg)
	if err != nil {
		return nil, err
	}
	w := &World{N: n}
	k0, k1, k2, k3 := sn.K(0), sn.K(1), sn.K(2), sn.K(3)
	// ---- setup block ----
	var setup []*pb.Transaction
	admit := func(x *pb.Transaction) {
		if err := n.State.DoTx(sn.CloneTx(x)); err != nil {
			panic(fmt.Sprintf("corpus setup DoTx: %v %v", err, n.Log.Tail(3)))
		}
		setup = append(setup, x)
	}
	// 1. the account
	req := &protos.InvokeRequest{ModuleName: "xkernel", ContractName: "$acl", MethodName: "NewAccount",
		Args: map[string][]byte{"account_name": []byte("1111111111111111"), "acl": aclJSON(k1.Address, k2.Address)}}
	res, err := n.PreExec([]*protos.InvokeRequest{req}, k1.Address, []string{k1.Address})
	if err != nil {
		return nil, fmt.Errorf("preexec NewAccount: %v", err)
	}
	x, err := sn.BuildTx(sn.TxSpec{Initiator: k1.Address, Signers: []*sn.Key{k1}, Nonce: w.nn(), Timestamp: 10,
		InExt: res.Inputs, OutExt: res.Outputs, Requests: res.Requests})
	admit(w.must(x, err, "NewAccount"))
	// 2. fund the account
	ins, tot := w.sel(k0.Address, 5000)
	x, err = sn.BuildTx(sn.TxSpec{Initiator: k0.Address, Signers: []*sn.Key{k0}, Inputs: ins, Nonce: w.nn(), Timestamp: 11,
		Outputs: change([]sn.Out{{To: Account, Amount: big.NewInt(3000)}, {To: Account, Amount: big.NewInt(2000)}}, k0.Address, tot, 5000)})
	admit(w.must(x, err, "fund account"))
	// 2b. outputs owned by account NAMES that have no rule on this chain: one never created, one
	// of another chain (nobody can ever satisfy a rule for them here, so they are unspendable)
	ins, tot = w.sel(k0.Address, 300)
	x, err = sn.BuildTx(sn.TxSpec{Initiator: k0.Address, Signers: []*sn.Key{k0}, Inputs: ins, Nonce: w.nn(), Timestamp: 12,
		Outputs: change([]sn.Out{{To: RulelessAccount, Amount: big.NewInt(100)}, {To: ForeignAccount, Amount: big.NewInt(200)}}, k0.Address, tot, 300)})
	admit(w.must(x, err, "fund rule-less account names"))
	w.RulelessFunding = x
	// 3. fund the contract: output to the contract + request amount
	p := (&sn.ProgBuilder{}).Put("vb0", []byte("seed"), []byte("1"))
	creq := sn.VerifReq(sn.VerifContract, p.String())
	creq.Amount = "700"
	res, err = n.PreExec([]*protos.InvokeRequest{creq}, k3.Address, []string{k3.Address})
	if err != nil {
		return nil, fmt.Errorf("preexec fund contract: %v", err)
	}
	ins, tot = w.sel(k3.Address, 700)
	var couts []sn.Out
	for c := 0; c < coins; c++ {
		amt := int64(700 / coins)
		if c == coins-1 {
			amt = 700 - int64(coins-1)*(700/int64(coins))
		}
		couts = append(couts, sn.Out{To: sn.VerifContract, Amount: big.NewInt(amt)})
	}
	x, err = sn.BuildTx(sn.TxSpec{Initiator: k3.Address, Signers: []*sn.Key{k3}, Inputs: ins, Nonce: w.nn(), Timestamp: 12,
		Outputs: change(couts, k3.Address, tot, 700),
		InExt:   res.Inputs, OutExt: res.Outputs, Requests: res.Requests})
	admit(w.must(x, err, "fund contract"))
	blk, err := n.FormatBlock(n.StateTip(), 1, k0, 5000, setup, true)
	if err != nil {
		return nil, err
	}
	if st := n.Confirm(blk); !st.Succ {
		return nil, fmt.Errorf("confirm setup block: %v", st.Error)
	}
	if err := n.Walk(blk.Blockid, false); err != nil {
		return nil, fmt.Errorf("walk setup block: %v %v", err, n.Log.Tail(3))
	}
	if pool, _ := n.State.GetUnconfirmedTx(false); len(pool) != 0 {
		return nil, fmt.Errorf("setup block left %d transactions in the pool", len(pool))
	}
	// ---- the corpus (nothing below is submitted: every item is valid on the same state) ----
	add := func(name string, spec sn.TxSpec) {
		spec.Nonce = w.nn()
		spec.Timestamp = int64(100 + w.nonce)
		x, err := sn.BuildTx(spec)
		w.must(x, err, name)
		w.Items = append(w.Items, Item{Name: name, Tx: x, Signers: spec.Signers, XuperSign: spec.XuperSign})
	}
	for _, v := range []int32{3, 1, 2} {
		ins, tot := w.sel(k0.Address, 40)
		add(fmt.Sprintf("transfer-v%d", v), sn.TxSpec{Version: v, Initiator: k0.Address, Signers: []*sn.Key{k0}, Inputs: ins, Desc: []byte("memo"),
			Outputs: change([]sn.Out{{To: k1.Address, Amount: big.NewInt(30)}, {To: k2.Address, Amount: big.NewInt(10), Frozen: 7}}, k0.Address, tot, 40)})
	}
	{ // several signers, inputs of two owners
		i0, t0 := w.sel(k0.Address, 20)
		i1, t1 := w.sel(k1.Address, 20)
		outs := change([]sn.Out{{To: k2.Address, Amount: big.NewInt(40)}}, k0.Address, t0, 20)
		outs = change(outs, k1.Address, t1, 20)
		add("multi-signer", sn.TxSpec{Initiator: k0.Address, Signers: []*sn.Key{k0, k1}, Inputs: append(i0, i1...), Outputs: outs})
	}
	{ // aggregated signature
		i0, t0 := w.sel(k0.Address, 15)
		i1, t1 := w.sel(k1.Address, 15)
		outs := change([]sn.Out{{To: k3.Address, Amount: big.NewInt(30)}}, k0.Address, t0, 15)
		outs = change(outs, k1.Address, t1, 15)
		add("xupersign", sn.TxSpec{Initiator: k0.Address, Signers: []*sn.Key{k0, k1}, XuperSign: true, Inputs: append(i0, i1...), Outputs: outs})
	}
	{ // account as initiator spending the account's money
		ins, tot := w.sel(Account, 100)
		add("account-initiator", sn.TxSpec{Initiator: Account, Signers: []*sn.Key{k1, k2}, AuthReq: []string{Account + "/" + k1.Address, Account + "/" + k2.Address},
			Inputs: ins, Outputs: change([]sn.Out{{To: k0.Address, Amount: big.NewInt(100)}}, Account, tot, 100)})
	}
	{ // address initiator spending account-owned inputs
		ins, tot := w.sel(Account, 50)
		add("account-input", sn.TxSpec{Initiator: k0.Address, Signers: []*sn.Key{k0, k1, k2},
			AuthReq: []string{k0.Address, Account + "/" + k1.Address, Account + "/" + k2.Address},
			Inputs:  ins, Outputs: change([]sn.Out{{To: k3.Address, Amount: big.NewInt(50)}}, Account, tot, 50)})
	}
	{ // contract call with events
		p := (&sn.ProgBuilder{}).Get("vb0", []byte("seed")).Put("vb0", []byte("k"), []byte("v")).Del("vb1", []byte("gone")).Event("ev", []byte("body")).Use(10, 20, 30, 0)
		res, err := n.PreExec([]*protos.InvokeRequest{sn.VerifReq(sn.VerifContract, p.String())}, k2.Address, []string{k2.Address})
		if err != nil {
			return nil, err
		}
		if res.GasUsed <= 0 {
			return nil, fmt.Errorf("corpus: the contract item uses no gas (gas price %v)", n.State.GetMeta().GetGasPrice())
		}
		ins, tot := w.sel(k2.Address, res.GasUsed)
		add("contract", sn.TxSpec{Initiator: k2.Address, Signers: []*sn.Key{k2}, Inputs: ins, InExt: res.Inputs, OutExt: res.Outputs, Requests: res.Requests,
			Outputs: change([]sn.Out{{To: "$", Amount: big.NewInt(res.GasUsed)}}, k2.Address, tot, res.GasUsed)})
	}
	{ // two charged requests in one transaction: the fee has to cover their sum
		p1 := (&sn.ProgBuilder{}).Put("vb0", []byte("two-a"), []byte("1")).Use(10, 20, 30, 0)
		p2 := (&sn.ProgBuilder{}).Put("vb1", []byte("two-b"), []byte("2")).Use(10, 20, 30, 0)
		res, err := n.PreExec([]*protos.InvokeRequest{sn.VerifReq(sn.VerifContract, p1.String()), sn.VerifReq(sn.VerifContract, p2.String())}, k2.Address, []string{k2.Address})
		if err != nil {
			return nil, err
		}
		if res.GasUsed <= 1 {
			return nil, fmt.Errorf("corpus: the two-request contract item uses no gas")
		}
		ins, tot := w.sel(k2.Address, res.GasUsed)
		add("contract-two-requests", sn.TxSpec{Initiator: k2.Address, Signers: []*sn.Key{k2}, Inputs: ins, InExt: res.Inputs, OutExt: res.Outputs, Requests: res.Requests,
			Outputs: change([]sn.Out{{To: "$", Amount: big.NewInt(res.GasUsed)}}, k2.Address, tot, res.GasUsed)})
	}
	{ // contract call + token transfer + fee
		p := (&sn.ProgBuilder{}).Put("vb1", []byte("x"), []byte("y")).Scan("vb0", []byte("a"), []byte("z"), -1)
		res, err := n.PreExec([]*protos.InvokeRequest{sn.VerifReq(sn.VerifContract, p.String())}, k0.Address, []string{k0.Address})
		if err != nil {
			return nil, err
		}
		ins, tot := w.sel(k0.Address, 60)
		add("contract+transfer+fee", sn.TxSpec{Initiator: k0.Address, Signers: []*sn.Key{k0}, Inputs: ins, InExt: res.Inputs, OutExt: res.Outputs, Requests: res.Requests,
			Outputs: change([]sn.Out{{To: k1.Address, Amount: big.NewInt(50)}, {To: "$", Amount: big.NewInt(10)}}, k0.Address, tot, 60)})
	}
	{ // contract-originated transfer: the contract pays out of its own funds
		p := (&sn.ProgBuilder{}).Transfer(sn.VerifContract, k1.Address, "25").Put("vb0", []byte("paid"), []byte("25"))
		res, err := n.PreExec([]*protos.InvokeRequest{sn.VerifReq(sn.VerifContract, p.String())}, k1.Address, []string{k1.Address})
		if err != nil {
			return nil, fmt.Errorf("preexec contract transfer: %v", err)
		}
		var outs []sn.Out
		for _, o := range res.UtxoOutputs {
			outs = append(outs, sn.Out{To: string(o.ToAddr), Raw: o.Amount, Frozen: o.FrozenHeight})
		}
		add("contract-originated-transfer", sn.TxSpec{Initiator: k1.Address, Signers: []*sn.Key{k1}, Inputs: res.UtxoInputs, Outputs: outs,
			InExt: res.Inputs, OutExt: res.Outputs, Requests: res.Requests})
	}
	{ // the contract pays the SAME amount to the same receiver twice, and a third party once
		p := (&sn.ProgBuilder{}).Transfer(sn.VerifContract, k2.Address, "15").Transfer(sn.VerifContract, k2.Address, "15").Transfer(sn.VerifContract, k3.Address, "4").Put("vb0", []byte("paid2"), []byte("34"))
		res, err := n.PreExec([]*protos.InvokeRequest{sn.VerifReq(sn.VerifContract, p.String())}, k2.Address, []string{k2.Address})
		if err != nil {
			return nil, fmt.Errorf("preexec repeated contract transfer: %v", err)
		}
		var outs []sn.Out
		for _, o := range res.UtxoOutputs {
			outs = append(outs, sn.Out{To: string(o.ToAddr), Raw: o.Amount, Frozen: o.FrozenHeight})
		}
		add("contract-originated-transfer-repeated", sn.TxSpec{Initiator: k2.Address, Signers: []*sn.Key{k2}, Inputs: res.UtxoInputs, Outputs: outs,
			InExt: res.Inputs, OutExt: res.Outputs, Requests: res.Requests})
	}
	return w, nil
}
