package corpus

import (
	"testing"

	sn "verif/simnode"
)

func TestBuild(t *testing.T) {
	w, err := Build(sn.DefaultConfig())
	if err != nil {
		t.Fatal(err)
	}
	for _, it := range w.Items {
		t.Log(it.Name, len(it.Tx.TxInputs), len(it.Tx.TxOutputs))
	}
}
