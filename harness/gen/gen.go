// Package gen generates block trees with transaction mixes for the history-quantified
// properties. Every block B of a tree carries canon(B): the storage image a fresh node
// obtains by confirming and playing genesis..B in order (no undo, no walk, no pool).
package gen

import (
	"bytes"
	"fmt"
	"math/big"
	"math/rand"
	"strings"

	pb "github.com/xuperchain/xupercore/bcs/ledger/xledger/xldgpb"
	"github.com/xuperchain/xupercore/protos"

	"verif/memkv"
	sn "verif/simnode"
)

// Buckets / keys used by generated contract programs.
var (
	Buckets  = []string{"vb0", "vb1"}
	KeyNames = []string{"a", "b", "c", "d", "e", "f", "\xffz", "a/b"} // incl. a key starting with 0xff and one containing the raw-key separator
)

// Opts bounds a generated tree.
type Opts struct {
	Cfg         sn.Config
	MaxBlocks   int // blocks besides genesis
	MaxDepth    int
	MaxChildren int
	MaxTxs      int  // per block
	KV          bool // contract (key) transactions
	Fees        bool
	Frozen      bool
	Big         bool // amounts beyond 64 bit
	SharedTx    bool // try to put the same transaction on sibling branches
	Linear      bool // no forks
	KVShare     int  // percentage of contract (key) transactions; 0 = default 40
	BigDesc     int  // when > 0, transfers carry a description of about this many bytes (large blocks)
	// SplitCoinbase: every fifth block's coinbase has further outputs after the award
	SplitCoinbase bool
	// CoinbaseFeeOutput: some of those coinbases also carry a fee ("$") output
	CoinbaseFeeOutput bool
}

// DefaultOpts is the mix used by C01-style histories.
func DefaultOpts() Opts {
	cfg := sn.DefaultConfig()
	cfg.Quota = []string{"1000000", "1000000", "1000000", "1208925819614629174706176"}
	return Opts{Cfg: cfg, MaxBlocks: 10, MaxDepth: 6, MaxChildren: 3, MaxTxs: 4, KV: true, Fees: true, Frozen: true,
		Big: true, SharedTx: true, SplitCoinbase: true, CoinbaseFeeOutput: false}
}

// BlockInfo is one node of the block tree.
type BlockInfo struct {
	Idx      int
	Parent   int // -1 for genesis
	Height   int64
	Block    *pb.InternalBlock // nil for genesis
	ID       []byte
	Canon    *memkv.World // image of a fresh node that played genesis..this block
	Kinds    []string     // kind of each non-coinbase tx
	Children []int
	Proposer int
}

// Tree is a generated block tree.
type Tree struct {
	Opts   Opts
	Blocks []*BlockInfo
	ByID   map[string]int
	RootTx *pb.Transaction // the genesis coinbase
	nonce  int
	ts     int64
	sealed int
}

// Shape is a random-id-free description of the tree.
func (t *Tree) Shape() string {
	var sb strings.Builder
	for _, b := range t.Blocks {
		fmt.Fprintf(&sb, "%d<%d[%s];", b.Idx, b.Parent, strings.Join(b.Kinds, ","))
	}
	return sb.String()
}

// Drop releases all canonical images.
func (t *Tree) Drop() {
	for _, b := range t.Blocks {
		if b.Canon != nil {
			b.Canon.Drop()
		}
	}
}

// Path returns the indices genesis..i.
func (t *Tree) Path(i int) []int {
	p := []int{}
	for j := i; j >= 0; j = t.Blocks[j].Parent {
		p = append([]int{j}, p...)
	}
	return p
}

// IsAncestor reports whether a is an ancestor of (or equal to) b.
func (t *Tree) IsAncestor(a, b int) bool {
	for j := b; j >= 0; j = t.Blocks[j].Parent {
		if j == a {
			return true
		}
	}
	return false
}

// ChainTxids lists ids of all transactions on genesis..i.
func (t *Tree) ChainTxids(i int) [][]byte {
	out := [][]byte{}
	for _, j := range t.Path(i) {
		if t.Blocks[j].Block == nil {
			continue
		}
		for _, x := range t.Blocks[j].Block.Transactions {
			out = append(out, x.Txid)
		}
	}
	return out
}

// NewTree creates the genesis node.
func NewTree(o Opts) (*Tree, error) {
	n, err := sn.NewNode(o.Cfg)
	if err != nil {
		return nil, err
	}
	t := &Tree{Opts: o, ByID: map[string]int{}, ts: 1000}
	rb, err := n.Ledger.QueryBlock(n.Root())
	if err != nil || len(rb.Transactions) != 1 {
		return nil, fmt.Errorf("cannot read genesis block: %v", err)
	}
	t.RootTx = sn.CloneTx(rb.Transactions[0])
	g := &BlockInfo{Idx: 0, Parent: -1, Height: 0, ID: n.Root(), Canon: n.World}
	t.Blocks = append(t.Blocks, g)
	t.ByID[string(g.ID)] = 0
	return t, nil
}

// Generate builds a whole tree.
func Generate(rng *rand.Rand, o Opts) (*Tree, error) {
	t, err := NewTree(o)
	if err != nil {
		return nil, err
	}
	nb := 2 + rng.Intn(o.MaxBlocks-1)
	for len(t.Blocks)-1 < nb {
		// pick a parent: bias towards deep blocks so that chains grow, but keep forks
		var cands []int
		for _, b := range t.Blocks {
			if int(b.Height) < o.MaxDepth && len(b.Children) < o.MaxChildren {
				if o.Linear && len(b.Children) > 0 {
					continue
				}
				cands = append(cands, b.Idx)
			}
		}
		if len(cands) == 0 {
			break
		}
		p := cands[rng.Intn(len(cands))]
		if rng.Intn(3) > 0 { // prefer the deepest candidates two times out of three
			best := cands[0]
			for _, c := range cands {
				if t.Blocks[c].Height > t.Blocks[best].Height || (t.Blocks[c].Height == t.Blocks[best].Height && rng.Intn(2) == 0) {
					best = c
				}
			}
			p = best
		}
		ntx := rng.Intn(o.MaxTxs + 1)
		if _, err := t.AddBlock(rng, p, ntx, nil); err != nil {
			return nil, err
		}
	}
	return t, nil
}

// Author opens a node on a copy of canon(parent): the place where transactions for a
// child of parent are pre-executed and admitted.
func (t *Tree) Author(parent int) (*sn.Node, error) {
	return sn.OpenOn(t.Blocks[parent].Canon.Clone(), t.Opts.Cfg)
}

// onChain: is txid part of a block on the chain genesis..block i?
func (t *Tree) onChain(i int, txid []byte) bool {
	for _, j := range t.Path(i) {
		if b := t.Blocks[j].Block; b != nil {
			for _, x := range b.Transactions {
				if string(x.Txid) == string(txid) {
					return true
				}
			}
		}
	}
	return false
}

// AddBlock generates a child of parent with up to ntx fresh transactions (plus, when
// SharedTx is on, possibly transactions copied from a sibling) and computes its canon image.
// extra transactions (already valid on parent state) are admitted first.
func (t *Tree) AddBlock(rng *rand.Rand, parent int, ntx int, extra []*pb.Transaction) (*BlockInfo, error) {
	pb0 := t.Blocks[parent]
	a, err := t.Author(parent)
	if err != nil {
		return nil, err
	}
	defer a.Drop()
	var txs []*pb.Transaction
	var kinds []string
	admit := func(x *pb.Transaction, kind string) bool {
		if ok, err := a.State.VerifyTx(x); !ok || err != nil {
			return false
		}
		if err := a.State.DoTx(sn.CloneTx(x)); err != nil {
			return false
		}
		txs = append(txs, x)
		kinds = append(kinds, kind)
		return true
	}
	for _, x := range extra {
		admit(x, "extra")
	}
	if t.Opts.SharedTx && len(pb0.Children) > 0 && rng.Intn(2) == 0 {
		// copy a prefix of a sibling's transactions: the same tx on several branches
		sib := t.Blocks[pb0.Children[rng.Intn(len(pb0.Children))]]
		k := 0
		for _, x := range sib.Block.Transactions {
			if x.Coinbase || k >= 2 {
				continue
			}
			c := sn.CloneTx(x)
			c.Blockid = nil
			if admit(c, "shared") {
				k++
			} else {
				break
			}
		}
	}
	if t.Opts.SharedTx && len(t.Blocks) > 2 && rng.Intn(3) == 0 {
		// the same transaction at DIFFERENT heights of competing branches: try the transactions of
		// a block that is not an ancestor of this one (they are admitted only where still valid)
		onPath := map[int]bool{}
		for _, j := range t.Path(parent) {
			onPath[j] = true
		}
		var others []int
		for _, b := range t.Blocks {
			if b.Idx > 0 && !onPath[b.Idx] {
				others = append(others, b.Idx)
			}
		}
		if len(others) > 0 {
			far := t.Blocks[others[rng.Intn(len(others))]]
			have := map[string]bool{}
			for _, x := range txs {
				have[string(x.Txid)] = true
			}
			k := 0
			for _, x := range far.Block.Transactions {
				if x.Coinbase || k >= 2 || have[string(x.Txid)] || t.onChain(parent, x.Txid) {
					continue
				}
				c := sn.CloneTx(x)
				c.Blockid = nil
				if admit(c, "shared-far") {
					k++
				}
			}
		}
	}
	for i := 0; i < ntx; i++ {
		x, kind, err := t.GenTx(rng, a)
		if err != nil || x == nil {
			continue
		}
		admit(x, kind)
	}
	return t.Seal(parent, rng.Intn(3), txs, kinds)
}

// Seal formats a block from txs on parent, replays it on a fresh copy of canon(parent) and
// records the new tree node.
func (t *Tree) Seal(parent int, proposer int, txs []*pb.Transaction, kinds []string) (*BlockInfo, error) {
	pb0 := t.Blocks[parent]
	f, err := sn.OpenOn(pb0.Canon.Clone(), t.Opts.Cfg)
	if err != nil {
		return nil, err
	}
	t.ts += 10
	// every fifth sealed block carries a coinbase of several outputs (the award first, as the
	// award rule demands, then one or two more, one of them possibly zero): nodes accept that
	// from any producer, so play / undo / totals / restart must handle it outside genesis too
	t.sealed++
	if t.Opts.SplitCoinbase && t.sealed%5 == 3 {
		f.AwardExtra = []sn.Out{{To: sn.K((proposer + 1) % 4).Address, Amount: big.NewInt(int64(7 * t.sealed))}}
		if t.sealed%10 == 3 {
			f.AwardExtra = append(f.AwardExtra, sn.Out{To: sn.K((proposer + 2) % 4).Address, Amount: big.NewInt(0)},
				sn.Out{To: sn.K(proposer).Address, Amount: big.NewInt(3)})
			if t.Opts.CoinbaseFeeOutput {
				f.AwardExtra = append(f.AwardExtra, sn.Out{To: "$", Amount: big.NewInt(5)})
			}
		}
	}
	blk, err := f.FormatBlock(pb0.ID, pb0.Height+1, sn.K(proposer), t.ts, txs, true)
	f.AwardExtra = nil
	if err != nil {
		f.Drop()
		return nil, err
	}
	if st := f.Confirm(blk); !st.Succ {
		f.Drop()
		return nil, fmt.Errorf("gen: fresh node refused generated block: %+v %v", st, f.Log.Tail(3))
	}
	if err := f.State.Play(blk.Blockid); err != nil {
		f.Drop()
		return nil, fmt.Errorf("gen: fresh node failed to play generated block: %v %v", err, f.Log.Tail(3))
	}
	bi := &BlockInfo{Idx: len(t.Blocks), Parent: parent, Height: pb0.Height + 1, Block: blk, ID: blk.Blockid,
		Canon: f.World, Kinds: kinds, Proposer: proposer}
	t.Blocks = append(t.Blocks, bi)
	pb0.Children = append(pb0.Children, bi.Idx)
	t.ByID[string(bi.ID)] = bi.Idx
	return bi, nil
}

func (t *Tree) nextNonce() string {
	t.nonce++
	return fmt.Sprintf("n%d", t.nonce)
}

// GenTx generates one honest transaction that is valid on the author's current state
// (chain state + the author's pool). It locks the selected outputs on the author so that
// later transactions of the same block do not reuse them.
func (t *Tree) GenTx(rng *rand.Rand, a *sn.Node) (*pb.Transaction, string, error) {
	o := t.Opts
	share := o.KVShare
	if share == 0 {
		share = 40
	}
	if o.KV && rng.Intn(100) < share {
		return t.genKV(rng, a)
	}
	return t.genTransfer(rng, a, nil, nil, nil)
}

func (t *Tree) genTransfer(rng *rand.Rand, a *sn.Node, inExt []*protos.TxInputExt, outExt []*protos.TxOutputExt,
	reqs []*protos.InvokeRequest) (*pb.Transaction, string, error) {
	o := t.Opts
	// pick a payer with spendable money
	var from *sn.Key
	var bal *big.Int
	for try := 0; try < 6; try++ {
		k := sn.K(rng.Intn(6))
		b, err := a.State.GetBalance(k.Address)
		if err != nil {
			return nil, "", err
		}
		fz, _ := a.State.GetFrozenBalance(k.Address)
		b.Sub(b, fz)
		if b.Sign() > 0 {
			from, bal = k, b
			break
		}
	}
	if from == nil {
		return nil, "", nil
	}
	kind := "xfer"
	// amount: small, or a big share (forces several inputs)
	amt := new(big.Int)
	switch rng.Intn(4) {
	case 0:
		amt.SetInt64(int64(1 + rng.Intn(50)))
	case 1:
		amt.Div(bal, big.NewInt(int64(2+rng.Intn(3))))
		kind += "+multi"
	default:
		amt.SetInt64(int64(1 + rng.Intn(5000)))
	}
	if amt.Sign() <= 0 || amt.Cmp(bal) > 0 {
		amt.SetInt64(1)
	}
	if !o.Big && !amt.IsInt64() {
		amt.SetInt64(1000)
	}
	if !amt.IsInt64() {
		kind += "+big"
	}
	ins, _, total, err := a.State.SelectUtxos(from.Address, amt, true, false)
	if err != nil {
		return nil, "", nil // not enough unlocked outputs: skip
	}
	if len(ins) > 1 {
		kind += fmt.Sprintf("+in%d", len(ins))
	}
	rest := new(big.Int).Set(amt)
	outs := []sn.Out{}
	nrec := 1 + rng.Intn(3)
	for i := 0; i < nrec && rest.Sign() > 0; i++ {
		part := new(big.Int).Set(rest)
		if i < nrec-1 {
			part.Div(rest, big.NewInt(2))
		}
		if part.Sign() == 0 {
			continue
		}
		rest.Sub(rest, part)
		out := sn.Out{To: sn.K(rng.Intn(6)).Address, Amount: part}
		if o.Frozen && rng.Intn(6) == 0 {
			switch rng.Intn(3) {
			case 0:
				out.Frozen = -1
				kind += "+frozen-1"
			case 1:
				out.Frozen = 1000000000
				kind += "+frozenfar"
			default:
				out.Frozen = -5
				kind += "+frozenneg"
			}
		}
		outs = append(outs, out)
	}
	if rest.Sign() > 0 {
		outs = append(outs, sn.Out{To: from.Address, Amount: rest})
	}
	change := new(big.Int).Sub(total, amt)
	var splitFee *sn.Out
	if o.Fees && change.Sign() > 0 && rng.Intn(3) == 0 {
		fee := big.NewInt(int64(1 + rng.Intn(20)))
		if fee.Cmp(change) > 0 {
			fee.Set(change)
		}
		change.Sub(change, fee)
		outs = append(outs, sn.Out{To: "$", Amount: fee})
		kind += "+fee"
		// a second fee output is legal (admission sums all of them)
		if change.Sign() > 0 && rng.Intn(4) == 0 {
			fee2 := big.NewInt(int64(1 + rng.Intn(9)))
			if fee2.Cmp(change) > 0 {
				fee2.Set(change)
			}
			change.Sub(change, fee2)
			splitFee = &sn.Out{To: "$", Amount: fee2}
			kind += "+fee2"
		}
	}
	if change.Sign() > 0 {
		outs = append(outs, sn.Out{To: from.Address, Amount: change})
	}
	if splitFee != nil {
		outs = append(outs, *splitFee)
	}
	if rng.Intn(8) == 0 {
		outs = append(outs, sn.Out{To: sn.K(rng.Intn(6)).Address, Amount: big.NewInt(0)})
		kind += "+zero"
	}
	ver := int32(3)
	if rng.Intn(5) == 0 {
		ver = int32(1 + rng.Intn(2))
		kind += fmt.Sprintf("+v%d", ver)
	}
	t.ts++
	var desc []byte
	if o.BigDesc > 0 {
		desc = bytes.Repeat([]byte{byte('a' + rng.Intn(26))}, o.BigDesc/2+rng.Intn(o.BigDesc))
		kind += "+bigdesc"
	}
	x, err := sn.BuildTx(sn.TxSpec{Version: ver, Initiator: from.Address, Signers: []*sn.Key{from}, Inputs: ins, Desc: desc,
		Outputs: outs, Nonce: t.nextNonce(), Timestamp: t.ts, InExt: inExt, OutExt: outExt, Requests: reqs})
	return x, kind, err
}

// GenProgram draws a small key program; the returned kind lists its op classes.
func GenProgram(rng *rand.Rand, nops int) (*sn.ProgBuilder, string) {
	p := &sn.ProgBuilder{}
	kinds := map[string]bool{}
	for i := 0; i < nops; i++ {
		b := Buckets[rng.Intn(len(Buckets))]
		k := []byte(KeyNames[rng.Intn(len(KeyNames))])
		switch rng.Intn(7) {
		case 0, 1:
			p.Put(b, k, []byte(fmt.Sprintf("v%d", rng.Intn(1000))))
			kinds["put"] = true
		case 2:
			p.Del(b, k)
			kinds["del"] = true
		case 3, 4:
			p.Get(b, k)
			kinds["get"] = true
		case 5:
			p.Scan(b, []byte("a"), []byte("g"), -1)
			kinds["scan"] = true
		default:
			p.Put(b, k, []byte(fmt.Sprintf("w%d", rng.Intn(1000)))).Get(b, k)
			kinds["put"] = true
			kinds["get"] = true
		}
	}
	ks := []string{}
	for _, n := range []string{"get", "put", "del", "scan"} {
		if kinds[n] {
			ks = append(ks, n)
		}
	}
	return p, strings.Join(ks, "")
}

func (t *Tree) genKV(rng *rand.Rand, a *sn.Node) (*pb.Transaction, string, error) {
	p, pk := GenProgram(rng, 1+rng.Intn(4))
	k := sn.K(rng.Intn(6))
	res, err := a.PreExec([]*protos.InvokeRequest{sn.VerifReq(sn.VerifContract, p.String())}, k.Address, []string{k.Address})
	if err != nil {
		return nil, "", nil
	}
	kind := "kv:" + pk
	if rng.Intn(4) == 0 {
		// contract call that also moves tokens
		x, k2, err := t.genTransfer(rng, a, res.Inputs, res.Outputs, res.Requests)
		if x != nil {
			return x, kind + "+" + k2, err
		}
	}
	t.ts++
	x, err := sn.BuildTx(sn.TxSpec{Initiator: k.Address, Signers: []*sn.Key{k}, Nonce: t.nextNonce(), Timestamp: t.ts,
		InExt: res.Inputs, OutExt: res.Outputs, Requests: res.Requests})
	return x, kind, err
}
