// Package ev is the verdict / evidence plumbing shared by all checks: it counts what a
// run really explored, enforces coverage floors, matches violations against the
// committed known-findings file, writes replay files and the evidence JSON, and turns
// the three-valued internal verdict into the exit code contract of MANIFEST.json.
package ev

import (
	"bufio"
	"encoding/json"
	"flag"
	"fmt"
	"io/ioutil"
	"os"
	"path/filepath"
	"sort"
	"strconv"
	"strings"
	"sync"
	"time"
)

// Out is the real standard output. Checks silence os.Stdout because xupercore prints
// debug lines with fmt.Printf; verdict lines go through Out.
var Out = os.Stdout

func init() {
	if os.Getenv("VERIF_KEEP_STDOUT") == "" {
		if f, err := os.OpenFile(os.DevNull, os.O_WRONLY, 0); err == nil {
			Out = os.NewFile(uintptr(dupFD(int(os.Stdout.Fd()))), "realstdout")
			os.Stdout = f
		}
	}
}

// Finding is one line of known_findings.jsonl.
type Finding struct {
	Property  string `json:"property"`
	Status    string `json:"status"` // "open" or "fixed"
	Signature string `json:"signature"`
	What      string `json:"what"`
	Commit    string `json:"commit,omitempty"`
}

type violation struct {
	Sig    string
	Detail string
	Replay string
	Known  bool
}

// Run accumulates one check run.
type Run struct {
	mu          sync.Mutex
	Prop        string
	Tier        string
	Seed        int64
	Level       string
	Rule        string
	Replay      string // --replay argument, if any
	start       time.Time
	evals       int64
	shapes      map[string]bool
	samples     []interface{}
	maxSamples  int
	counters    map[string]int64
	violations  []violation
	knownHit    map[string]int
	incon       []string
	assumptions []string
	findings    []Finding
	extra       map[string]interface{}
	exhaustive  bool
	root        string
}

// Root is the /verif directory.
func Root() string {
	if r := os.Getenv("VERIF_ROOT"); r != "" {
		return r
	}
	return "/verif"
}

// Start parses flags / environment and opens a run.
func Start(prop, level, rule string) *Run {
	tier := flag.String("tier", os.Getenv("VERIF_TIER"), "quick|thorough")
	replay := flag.String("replay", "", "replay file")
	if !flag.Parsed() {
		flag.Parse()
	}
	if *tier != "thorough" {
		*tier = "quick"
	}
	seed := int64(1)
	if s := os.Getenv("VERIF_SEED"); s != "" {
		if v, err := strconv.ParseInt(s, 10, 64); err == nil {
			seed = v
		}
	}
	r := &Run{Prop: prop, Tier: *tier, Seed: seed, Level: level, Rule: rule, Replay: *replay, start: time.Now(),
		shapes: map[string]bool{}, counters: map[string]int64{}, knownHit: map[string]int{},
		maxSamples: 6, extra: map[string]interface{}{}, root: Root()}
	r.loadFindings()
	// the evidence file must be rewritten by every run: remove the old one first
	os.Remove(r.evidencePath())
	return r
}

func (r *Run) Quick() bool { return r.Tier != "thorough" }

// N picks a bound by tier.
func (r *Run) N(quick, thorough int) int {
	if r.Quick() {
		return quick
	}
	return thorough
}

func (r *Run) loadFindings() {
	f, err := os.Open(filepath.Join(r.root, "known_findings.jsonl"))
	if err != nil {
		return
	}
	defer f.Close()
	sc := bufio.NewScanner(f)
	sc.Buffer(make([]byte, 1<<20), 1<<20)
	for sc.Scan() {
		ln := strings.TrimSpace(sc.Text())
		if ln == "" || strings.HasPrefix(ln, "#") {
			continue
		}
		var fd Finding
		if json.Unmarshal([]byte(ln), &fd) == nil && fd.Property == r.Prop {
			r.findings = append(r.findings, fd)
		}
	}
}

// Case records one explored case; shape identifies it up to random ids; nontrivial says
// whether it counts for distinct_nontrivial.
func (r *Run) Case(shape string, nontrivial bool) {
	r.mu.Lock()
	r.evals++
	if nontrivial {
		r.shapes[shape] = true
	}
	r.mu.Unlock()
}

// Evals adds evaluations that are not separately shaped (inner comparisons etc.).
func (r *Run) Evals(n int) {
	r.mu.Lock()
	r.evals += int64(n)
	r.mu.Unlock()
}

// Shape adds a distinct non-trivial shape without counting an evaluation.
func (r *Run) Shape(shape string) {
	r.mu.Lock()
	r.shapes[shape] = true
	r.mu.Unlock()
}

func (r *Run) Count(name string, d int) {
	r.mu.Lock()
	r.counters[name] += int64(d)
	r.mu.Unlock()
}

func (r *Run) Counter(name string) int64 {
	r.mu.Lock()
	defer r.mu.Unlock()
	return r.counters[name]
}

// Sample keeps a few real cases for the evidence file.
func (r *Run) Sample(v interface{}) {
	r.mu.Lock()
	if len(r.samples) < r.maxSamples {
		r.samples = append(r.samples, v)
	}
	r.mu.Unlock()
}

func (r *Run) Assume(s string)               { r.assumptions = append(r.assumptions, s) }
func (r *Run) Extra(k string, v interface{}) { r.mu.Lock(); r.extra[k] = v; r.mu.Unlock() }
func (r *Run) Exhaustive(b bool)             { r.exhaustive = b }
func (r *Run) Inconclusive(why string)       { r.mu.Lock(); r.incon = append(r.incon, why); r.mu.Unlock() }
func (r *Run) NumViolations() int            { r.mu.Lock(); defer r.mu.Unlock(); return len(r.violations) }

// Floor declares that a mechanism must have been reached at least min times, otherwise
// the run is inconclusive for it.
func (r *Run) Floor(counter string, min int64) {
	if r.Counter(counter) < min {
		r.Inconclusive(fmt.Sprintf("coverage floor not met: %s = %d < %d", counter, r.Counter(counter), min))
	}
}

// Violation reports a violated property. sig is the narrow structural signature used to
// match known findings; detail is for humans; replay is any JSON-able witness.
// It returns true when the violation is a known (open) finding.
func (r *Run) Violation(sig, detail string, replay interface{}) bool {
	r.mu.Lock()
	defer r.mu.Unlock()
	for _, f := range r.findings {
		if f.Status == "open" && f.Signature == sig {
			r.knownHit[sig]++
			if r.knownHit[sig] == 1 {
				r.violations = append(r.violations, violation{Sig: sig, Detail: detail, Known: true})
			}
			return true
		}
	}
	// de-duplicate new violations by signature, keep at most 20
	n := 0
	for _, v := range r.violations {
		if !v.Known {
			if v.Sig == sig {
				return false
			}
			n++
		}
	}
	if n >= 20 {
		return false
	}
	dir := filepath.Join(r.outRoot(), "replays", r.Prop)
	os.MkdirAll(dir, 0755)
	path := filepath.Join(dir, fmt.Sprintf("%s-seed%d-%d.json", r.Tier, r.Seed, n))
	buf, _ := json.MarshalIndent(map[string]interface{}{"property": r.Prop, "signature": sig, "detail": detail,
		"seed": r.Seed, "tier": r.Tier, "witness": replay}, "", " ")
	ioutil.WriteFile(path, buf, 0644)
	r.violations = append(r.violations, violation{Sig: sig, Detail: detail, Replay: path})
	return false
}

func (r *Run) evidencePath() string { return filepath.Join(r.outRoot(), "evidence", r.Prop+".json") }

// outRoot is where evidence and replay files go: /verif, unless VERIF_OUT redirects them
// (used when a check is pointed at a scratch copy of the repository during development).
func (r *Run) outRoot() string {
	if o := os.Getenv("VERIF_OUT"); o != "" {
		return o
	}
	return r.root
}

// Finish writes the evidence file, prints verdict lines and exits.
func (r *Run) Finish() {
	r.mu.Lock()
	defer r.mu.Unlock()
	newV := 0
	for _, v := range r.violations {
		if v.Known {
			what := v.Sig
			for _, f := range r.findings {
				if f.Signature == v.Sig {
					what = f.What
				}
			}
			fmt.Fprintf(Out, "KNOWN-FINDING: property=%s %s [sig=%s hits=%d]\n", r.Prop, what, v.Sig, r.knownHit[v.Sig])
		} else {
			newV++
			fmt.Fprintf(Out, "VIOLATION property=%s replay=%s\n", r.Prop, v.Replay)
			fmt.Fprintf(Out, "  signature: %s\n  detail: %s\n", v.Sig, clip(v.Detail, 1500))
		}
	}
	for _, s := range r.incon {
		fmt.Fprintf(Out, "INCONCLUSIVE property=%s %s\n", r.Prop, s)
	}
	cov := map[string]interface{}{}
	for k, v := range r.extra {
		cov[k] = v
	}
	cov["evaluations"] = r.evals
	cov["distinct_nontrivial"] = len(r.shapes)
	cov["rule"] = r.Rule
	smp := r.samples
	if smp == nil {
		smp = []interface{}{}
	}
	cov["samples"] = smp
	cnt := map[string]int64{}
	keys := []string{}
	for k := range r.counters {
		keys = append(keys, k)
	}
	sort.Strings(keys)
	for _, k := range keys {
		cnt[k] = r.counters[k]
	}
	cov["counters"] = cnt
	cov["inconclusive"] = r.incon
	if r.exhaustive {
		cov["exhaustive"] = true
	}
	known := []string{}
	for s, n := range r.knownHit {
		known = append(known, fmt.Sprintf("%s x%d", s, n))
	}
	sort.Strings(known)
	cov["known_findings_hit"] = known
	evd := map[string]interface{}{
		"property_id": r.Prop, "tier": r.Tier, "seed": r.Seed, "level": r.Level, "coverage": cov,
		"assumptions": r.assumptions, "wall_s": time.Since(r.start).Seconds(), "violations": newV,
	}
	os.MkdirAll(filepath.Dir(r.evidencePath()), 0755)
	buf, _ := json.MarshalIndent(evd, "", " ")
	ioutil.WriteFile(r.evidencePath(), buf, 0644)
	fmt.Fprintf(Out, "%s %s seed=%d: evaluations=%d distinct=%d violations=%d known=%d inconclusive=%d wall=%.1fs\n",
		r.Prop, r.Tier, r.Seed, r.evals, len(r.shapes), newV, len(r.knownHit), len(r.incon), time.Since(r.start).Seconds())
	if newV > 0 {
		os.Exit(1)
	}
	os.Exit(0)
}

func clip(s string, n int) string {
	if len(s) > n {
		return s[:n] + "..."
	}
	return s
}
