package ev

import "syscall"

func dupFD(fd int) int {
	n, err := syscall.Dup(fd)
	if err != nil {
		return fd
	}
	return n
}
