#!/usr/bin/env python3
"""usage: tools/mkmeta.py <seed-id> <property> <change> <needs> <check=result> ...   writes seeded/<id>/meta.json"""
import json, sys, os
sid, prop, change, needs = sys.argv[1:5]
res = dict(a.split("=", 1) for a in sys.argv[5:])
d = os.path.join(os.path.dirname(os.path.dirname(os.path.abspath(__file__))), "seeded", sid)
demo = ""
try:
    lines = open(os.path.join(d, "README.agent.md")).read().splitlines()
    demo = " ".join(l for l in lines[:2])
except Exception:
    pass
json.dump({"seed": sid, "breaks_property": prop, "change": change, "needs_to_manifest": needs,
           "what_was_run": "tools/seedeval.sh on a scratch worktree of the current /repo HEAD (%s): demo passes without the change and fails with it, build ok with and without -tags verif, the touched packages' own tests still pass; then bin/check <id> quick with VERIF_REPO=<worktree>" % demo,
           "confirmed": "yes (wave 7: patch from an independent sub-agent that saw only the property text and a list of earlier ideas to avoid)",
           "results": res}, open(os.path.join(d, "meta.json"), "w"), indent=1)
print("wrote", d)
