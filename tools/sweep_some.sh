#!/bin/bash
# usage: tools/sweep_some.sh <tier> "<ids...>" <seeds...>
tier=$1; ids=$2; shift 2
cd "$(dirname "$0")/.."
for s in "$@"; do for c in $ids; do
  t0=$(date +%s); out=$(VERIF_SEED=$s bin/check $c $tier 2>&1); rc=$?; t1=$(date +%s)
  echo "seed=$s $c $tier rc=$rc wall=$((t1-t0))s known=$(echo "$out" | grep -c '^KNOWN-FINDING') $(echo "$out" | grep 'VIOLATION\|INCONCLUSIVE\|BUILD-FAILED\|signature:' | head -4 | cut -c1-220 | tr '\n' ';') | $(echo "$out" | tail -1 | cut -c1-120)"
done; done
