#!/bin/bash
# usage: tools/thorough_changed.sh <ids...>   runs the thorough tier of the named checks, one line per run
cd "$(dirname "$0")/.."
for c in "$@"; do
  t0=$(date +%s)
  out=$(bin/check $c thorough 2>&1); rc=$?
  t1=$(date +%s)
  echo "$c thorough rc=$rc wall=$((t1-t0))s known=$(echo "$out" | grep -c '^KNOWN-FINDING') $(echo "$out" | grep 'VIOLATION\|INCONCLUSIVE\|BUILD-FAILED\|signature:' | head -4 | cut -c1-220 | tr '\n' ';') | $(echo "$out" | tail -1 | cut -c1-140)"
done
