#!/bin/bash
# Runs the pinned test suite on /repo (or $1) with the verif guard OFF and compares with BASELINE.stable_pass.
R=${1:-/repo}
export GOFLAGS=-mod=mod GOPROXY=off GOSUMDB=off GOTOOLCHAIN=local
OUT=$(mktemp /var/tmp/baseline.XXXXXX.json)
(cd $R && go test -json -vet=off -count=1 -timeout 25m ./... > $OUT 2>/dev/null)
python3 - "$OUT" <<'P'
import json,sys
base=json.load(open('/root/.vp/BASELINE.json'))
want=set(base['stable_pass'])
res={}
for l in open(sys.argv[1]):
    try: d=json.loads(l)
    except: continue
    if d.get('Test') and d.get('Action') in('pass','fail','skip'):
        res[d['Package']+'::'+d['Test']]=d['Action']
ok=[t for t in want if res.get(t)=='pass']
bad=[(t,res.get(t)) for t in want if res.get(t)!='pass']
print("stable_pass: %d/%d pass"%(len(ok),len(want)))
for t,a in bad: print("  NOT PASSING:",t,a)
P
rm -f $OUT
cd $R && git status --short | grep -v "^??" | head -3; git -C $R clean -qfd kernel/mock bcs 2>/dev/null
