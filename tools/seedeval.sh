#!/bin/bash
# usage: tools/seedeval.sh <worktree> <k> <seed-id> <check ids...>
# Wave-7 layout: <worktree>/SEED/<k>/{patch.diff,demo_test.go,README.md}; README starts with
# PKG=<dir> and RUN=<regex>. Confirms the change (demo passes without, fails with; build ok; the
# touched packages' own tests still pass), stores it under /verif/seeded/<seed-id>/ and runs the
# named checks against the changed worktree.
set -u
WT=$1; K=$2; ID=$3; shift 3
export GOFLAGS=-mod=mod GOPROXY=off GOSUMDB=off GOTOOLCHAIN=local
S=$WT/SEED/$K
PKG=$(grep -m1 '^PKG=' $S/README.md | cut -d= -f2- | tr -d ' `')
RX=$(grep -m1 '^RUN=' $S/README.md | cut -d= -f2- | tr -d ' `')
cd $WT || exit 2
git checkout -q -- . ; git clean -qfd -e SEED
git checkout -q --detach $(git -C /repo rev-parse HEAD)
T=/tmp/seedeval-$ID; mkdir -p $T
cp $S/demo_test.go $PKG/zz_seed_demo_test.go
timeout 600 go test -vet=off -count=1 -run "$RX" ./$PKG > $T/demo_without.txt 2>&1; W0=$?
git apply $S/patch.diff 2>/dev/null || git apply -3 $S/patch.diff || { echo "seed $ID: PATCH DOES NOT APPLY"; exit 2; }
git reset -q
go build ./bcs/... ./kernel/... ./lib/crypto/... ./lib/cache/... ./lib/logs/... ./lib/utils/... ./protos/... > $T/build.txt 2>&1; B=$?
go build -tags verif ./bcs/... ./kernel/... > $T/buildv.txt 2>&1; BV=$?
timeout 600 go test -vet=off -count=1 -run "$RX" ./$PKG > $T/demo_with.txt 2>&1; W1=$?
rm -f $PKG/zz_seed_demo_test.go
TP=$(grep '^+++ b/' $S/patch.diff | sed 's|^+++ b/||; s|/[^/]*$||' | sort -u | sed 's|^|./|' | tr '\n' ' ')
go test -vet=off -count=1 $TP 2>&1 | grep -v "^ok\|no test files" | grep -v "TestStateWorkWithLedger\|wasm2c" | grep "^--- FAIL\|^panic\|^FAIL" > $T/pkgtests.txt
echo "seed $ID: pkg=$PKG run=$RX touched=[$TP] unexpected test failures: $(grep -c . $T/pkgtests.txt) $(grep '^--- FAIL' $T/pkgtests.txt | tr '\n' ' ')"
echo "seed $ID: demo without change exit=$W0 (want 0); build exit=$B/$BV (want 0/0); demo with change exit=$W1 (want !=0)"
mkdir -p /verif/seeded/$ID
cp $S/patch.diff /verif/seeded/$ID/patch.diff
cp $S/demo_test.go /verif/seeded/$ID/demo_test.go
cp $S/README.md /verif/seeded/$ID/README.agent.md 2>/dev/null
for c in "$@"; do
  out=$(cd /verif && VERIF_REPO=$WT VERIF_OUT=$T/out bin/check $c quick 2>&1)
  rc=$?
  sigs=$(echo "$out" | grep "signature:" | sed 's/^ *signature: //' | sort -u | head -4 | cut -c1-160 | tr '\n' ';')
  echo "  check $c: exit=$rc sigs=[$sigs] $(echo "$out" | grep -c INCONCLUSIVE) inconclusive"
done
git checkout -q -- . ; git clean -qfd -e SEED
rm -rf $T/out
