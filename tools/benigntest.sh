#!/bin/bash
# usage: tools/benigntest.sh [benign|benign2]   false-alarm regression: applies every area's all.diff
# to a scratch worktree of /repo HEAD (3-way where the tree has moved) and runs the checks touching
# the area against it. Prints one line per (area, check); anything but rc=0 without VIOLATION needs a look.
set -u
cd "$(dirname "$0")/.."
SET=${1:-benign2}
export GOFLAGS=-mod=mod GOPROXY=off GOSUMDB=off GOTOOLCHAIN=local
declare -A MAP=( [ledger]="C04 C05 C06 C08 C01 C13 C17" [state]="C01 C02 C03 C05 C06 C12 C13 C17 C18" [xmodel]="C09 C10 C18 C01 C03 C11 C19" [consensus]="C14 C15 C16 C19" [engine]="C20 C13 C08 C16 C05 C07" [acl]="C11 C07 C08 C19 C09" )
for a in ledger state xmodel consensus engine acl; do
  wt=/tmp/benigntest-$SET-$a
  git -C /repo worktree remove --force $wt 2>/dev/null
  git -C /repo worktree add -q --detach $wt HEAD || continue
  ( cd $wt && (git apply $OLDPWD/$SET/$a/all.diff 2>/dev/null || git apply -3 $OLDPWD/$SET/$a/all.diff >/dev/null 2>&1); git reset -q )
  if grep -rl "<<<<<<<" --include=*.go $wt >/dev/null 2>&1; then
    echo "$SET/$a: all.diff conflicts with the current tree (files: $(grep -rl '<<<<<<<' --include=*.go $wt | tr '\n' ' ')): skipped"
    git -C /repo worktree remove --force $wt; continue
  fi
  if ! (cd $wt && go build -tags verif ./bcs/... ./kernel/... >/dev/null 2>&1); then
    echo "$SET/$a: does not build on the current tree: skipped"; git -C /repo worktree remove --force $wt; continue
  fi
  for c in ${MAP[$a]}; do
    out=$(VERIF_REPO=$wt VERIF_OUT=/tmp/benigntest-out-$SET-$a bin/check $c quick 2>&1); rc=$?
    echo "$SET/$a $c rc=$rc $(echo "$out" | grep 'VIOLATION\|INCONCLUSIVE\|signature:' | head -3 | cut -c1-200 | tr '\n' ';') | $(echo "$out" | tail -1 | cut -c1-110)"
  done
  git -C /repo worktree remove --force $wt; rm -rf /tmp/benigntest-out-$SET-$a
done
