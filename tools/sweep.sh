#!/bin/bash
# usage: tools/sweep.sh <tier> <seeds...>   runs every registered check at each seed, one line per run
tier=$1; shift
cd "$(dirname "$0")/.."
for s in "$@"; do
  for i in 01 02 03 04 05 06 07 08 09 10 11 12 13 14 15 16 17 18 19 20; do
    t0=$(date +%s)
    out=$(VERIF_SEED=$s bin/check C$i $tier 2>&1); rc=$?
    t1=$(date +%s)
    echo "seed=$s C$i $tier rc=$rc wall=$((t1-t0))s known=$(echo "$out" | grep -c '^KNOWN-FINDING') $(echo "$out" | grep 'VIOLATION\|INCONCLUSIVE\|BUILD-FAILED\|signature:' | head -4 | cut -c1-220 | tr '\n' ';') | $(echo "$out" | tail -1 | cut -c1-140)"
  done
done
