#!/usr/bin/env python3
"""Regenerates /verif/MANIFEST.json from the table below (single source of truth)."""
import json, os
ROOT = os.path.dirname(os.path.dirname(os.path.abspath(__file__)))
BASE = json.load(open('/root/.vp/BASELINE.json'))['cmd'] if os.path.exists('/root/.vp/BASELINE.json') else ""

# id -> (category, technique, level text, level note, design_ref); None = not claimed yet (reason)
CHECKS = {
 "C01": ("exploration", "differential replay: every observable of the walked/replayed/reopened node vs a history-free node opened on canon(tip)+pool, after every op of random histories over generated block trees",
         "Runtime differential monitor over thousands of generated operations: held on the K histories explored (K, shapes and mechanisms reached are in the evidence); not a proof.",
         "Trusted: verifmem models leveldb atomicity; canon(B) is produced by the same Play code on a node without history (defects common to first-time play are left to C02/C03).", "DESIGN.md §3 C01"),
 "C02": ("exploration", "conservation monitor: after every op of random histories (with hostile amount/sum/duplicate/flag variants interleaved) the raw UTXO table, reported total, balances and pending fees are compared with a statement-level UTXO model of chain(tip)+pool",
         "Runtime monitor with an implementation-independent reference model over thousands of generated operations and hostile inputs; held on what was explored.",
         "Trusted: the statement-level model (refmodel/state.go, ~150 lines); signatures and contract re-execution are out of its scope (C07, C09).", "DESIGN.md §3 C02"),
 "C04": ("exploration", "ledger auditor: after every op of random ledger histories (forks, ties, reorganisations, held/late blocks, duplicates, invalid blocks, truncation + regrowth) every query of the statement is compared with a tree model, on the live instance and on a reopened twin",
         "Runtime monitor against an executable tree model over thousands of operations; held on what was explored.",
         "Trusted: the tree model (refmodel/tree.go); the ledger does not validate transaction contents, bodies are arbitrary signed transfers.", "DESIGN.md §3 C04"),
 "C03": ("exploration", "admission oracle + pool-validity auditor: every DoTx / submission result in random histories with conflict families and hostile variants is compared both ways with a statement-level model of chain(tip)+pool; peer blocks carrying conflict families / inadmissible transactions (applied through Play and through Walk, the engine's path) must be refused; peer blocks also arrive through the engine's real Miner.ProcBlock; after every op the pool must be explainable as a sequential extension of the model state",
         "Runtime monitor with an implementation-independent admission model over thousands of operations; held on what was explored (two PlayAndRepost-with-pool defects are listed as known findings).",
         "Trusted: the statement-level model (refmodel/state.go); signatures / ACL / contract re-execution are other properties.", "DESIGN.md §3 C03"),
 "C05": ("fault_enumeration", "live-vs-reopened twin comparison after every op + no-trace oracle (stored bytes and all answers unchanged) after ops built to fail at named stages (refused blocks, junk blocks played or walked to - incl. blocks that conflict with the pool and fail verification -, one-step failed walks judged with the pool included), incl. valid ops (confirm, play, walk, own block, pool admission, the engine's ProcBlock) whose k-th storage write is failed by the interposed storage engine",
         "Runtime fault injection at the storage-write boundary and at every named failure stage, over random histories; the k of 'fail write k' is drawn from the measured write count of each op (sampled, not exhaustive per op; the thorough tier enumerates more).",
         "Trusted: verifmem (single Put/Delete and Batch.Write fail or apply atomically). Faults below the kvdb boundary are out of reach.", "DESIGN.md §3 C05"),
 "C06": ("fault_enumeration", "crash-point enumeration: the interposed storage engine logs every atomic write of both databases; for every prefix of the write sequence of each scenario the crash image is rebuilt, opened, audited (ledger invariants, state == canon(pointer)+pool, conservation model), resynchronised to the ledger tip and audited again",
         "Exhaustive over the write-prefix space of each generated scenario (dozens of scenarios in quick, >1000 in thorough); scenarios themselves are sampled.",
         "Trusted: one kvdb Put/Delete/Batch.Write is atomic and durable (leveldb's contract), modelled by verifmem; crashes inside one write are out of reach.", "DESIGN.md §3 C06"),
 "C17": ("exploration", "max-monotone model of the irreversible height updated on every applied block, compared with GetMeta after every op / reopen of random histories with windows 0,1,2,3,5; every non-pruning walk (also the engine's ProcBlock) is checked to keep finalised blocks on the state's chain, to be refused iff it would undo one; operations failing part of the way (junk blocks, storage write errors, also right after own blocks) are part of the histories",
         "Runtime monitor with an executable model over thousands of operations incl. deliberate attempts to cross the finalised height; held on what was explored.",
         "Trusted: the 40-line model in cmd/c17; the window never changes at this commit.", "DESIGN.md §3 C17"),
 "C18": ("exploration", "recorded-answer oracle: what the live reader answered when B was the tip (recorded on a history-free node) vs CreateSnapshot(B) / CreateXMSnapshotReader(B) / tip readers for every (chain block, key) after every synchronised op of key-heavy histories with reorganisations and pending pool writes",
         "Runtime differential monitor over ~60k snapshot reads per quick run; held on what was explored.",
         "Trusted: the recording node runs the same xmodel live-read code (C01/C03 cover it independently).", "DESIGN.md §3 C18"),
 "C13": ("exploration", "producer-vs-replica differential + pool-order oracle: pools of dependent / key-sharing / oversized / timer-triggering transactions; GetUnconfirmedTx sampled 8x per pool (producer<consumer, reader<overwriter); block packed by the engine's real miner.packBlock, VerifyBlock / IsValidTx, two replicas that never saw the pool (confirm+Walk, confirm+Play) vs producer (real confirmBlockForMiner): all observables equal; marathon: one long-lived producer mines 22-27 consecutive blocks (pool refilled with children of left-behind transactions, mixed sizes, decaying award, confirmed transactions submitted again), every block goes through the real Miner.ProcBlock of a long-lived follower (restarted now and then) and of a cold twin, producer == follower after every block",
         "Runtime differential monitor over hundreds (quick) / thousands (thorough) of pools; held on what was explored; one timer-transaction defect is a known finding.",
         "Blocks are assembled by the engine's real miner.packBlock / confirmBlockForMiner and received through the real Miner.ProcBlock (verif export shims, null consensus); Go map iteration randomness is sampled, not enumerated.", "DESIGN.md §3 C13"),
 "C12": ("exploration", "lock-protocol holder-table monitor on the SpinLock API under stress + free-running concurrent rounds on a real node (conflict families, selectors, concurrent Play and concurrent Walk with its asynchronous pool re-admission, balance queries on cold caches; every second round with seeded storage-latency jitter) under the Go race detector; each round's call/return history is checked for an explaining sequential order with porcupine against the statement-level model, plus contention-refusal, selection-disjointness and quiescent-state (pool validity, conservation, canon, live==twin) auditors",
         "Runtime monitoring of real concurrent executions (hundreds of rounds quick, thousands thorough) with an offline linearizability check per round; interleavings are those the scheduler produced, not an enumeration.",
         "Trusted: porcupine v1.3.0; the statement-level model; race reports count only when both frames lie in spin_lock.go / utxo.go / utxo_cache.go / xmodel.go / state.go.", "DESIGN.md §3 C12"),
 "C14": ("exploration", "vote-counting model vs DefaultSaftyRules.CheckProposal / CheckVote / CalVotesThreshold over all multisets of signature entries (valid / repeated / non-member / wrong id / damaged / key mismatch, real ECDSA signatures) for n<=4 exhaustively and sampled for n=5..10; the same certificates through tdpos / xpoa CheckMinerMatch over a stub ledger with three validator sets; vote streams into a real Smr collector (sequential, and eight simultaneous copies of one member's vote); weak certificates over every stored proposal through the real proposal handler after honest chains have moved the root",
         "Exhaustive over the small-n box (recorded in coverage.exhaustive_box), sampled beyond; runtime oracle = executable model written from the statement.",
         "Trusted: the 140-line vote-counting model (cmd/c14/model.go); ECDSA / SHA-256.", "DESIGN.md §3 C14"),
 "C07": ("exploration", "schema-walk mutation monitor: every single-field mutant (and boundary shift) of a corpus of accepted transactions of all forms is verified with the id kept and with the id recomputed; signature attacks (swap, replay, foreign key, dropped / repeated signer + re-sign, outputs of rule-less account names, unsigned transfers carrying the autogen / coinbase flag); block-path oracle: a sample of covered-field mutants arrives inside a well-formed peer block under the original id, with / without the original in the pool, applied through Walk or Play on a twin; digest grouping for injectivity; (false,nil) and panic detection; corpus = 10 hand-built forms + transactions drawn by the block generator",
         "Runtime oracle over ~4.5k verifications of ~2.2k mutants of 10 accepted transactions; complete for single-field edits of these transactions, not for 'all transactions'.",
         "Trusted: ECDSA P-256 / SHA-256; the explicit uncovered-field set {txid, blockid, received_timestamp, modify_block, HD_info for v1}.", "DESIGN.md §3 C07"),
 "C08": ("exploration", "schema-walk mutation monitor on node-formatted blocks (1..17 transactions, with / without certificate, failed-tx map, target bits): every single-field mutant as is and with the id recomputed, body edits (insert fresh / duplicate at every position, drop, swap, replace; merkle field recomputed or not), re-signing with another key",
         "Runtime oracle over ~18k verifications per quick run; complete for single edits of the generated blocks.",
         "Trusted: SHA-256 / ECDSA; explicit set of fields outside the three bindings (height, in_trunk, next_hash, merkle_tree list, failed-tx keys, transaction content other than its id).", "DESIGN.md §3 C08"),
 "C15": ("exploration", "structural-invariant monitor on the real Smr / QCPendingTree (real InitQCTree over a stub ledger, real signed proposal / vote messages through the synchronous handler shims): audit after every call of every history - every labelled rooted tree on n <= 6 proposals x every arrival order as confirmed blocks, n <= 5 through the proposal handler in three interleavings, every single duplicate, every single rollback position, vote patterns at every gap; random histories of 3-12 proposals (shape styles, disorder levels, gapped views, weak justifies, member / own votes, enforce, undelivered parents, restart forms); oracle: accepted proposals stored exactly once and in the right place, HighQC view monotone except by rollback and only to certified stored proposals, markers = ancestors 1/2/3 when set, root moves only to a descendant; thorough adds free-running concurrent handlers (real Start loop + ledger goroutine) audited at quiescence and a -race child",
         "Exhaustive over the small-n boxes (75k histories, 1.0M audited calls per quick run; n <= 7 / 1.1M histories thorough), sampled beyond; concurrent interleavings are those the scheduler produced.",
         "Trusted: the tree model and auditor in cmd/c15/model.go; stub ledger; allowed: lazy eviction of proposals that can no longer descend from the root, commit with too few ancestors is a no-op, CommitQC == Root initially. Two open findings (stale markers; unsynchronised tree under concurrent handlers).", "DESIGN.md §3 C15"),
 "C16": ("exploration", "per-millisecond tiling audit of the tdpos / xpoa slot schedules over a parameter box + random configurations, acceptance matrix through the public CheckMinerMatch of real tdpos / xpoa / single / pow instances over stub ledgers (every validator, outsider, empty proposer, slot edges), PoW IsProofed / retarget against an independent Bitcoin-style model, PoW forks judged by a long-lived instance vs a fresh one (differential), restarts of the pluggable consensus after upgrades (the latest consensus must judge), compact encoding against an independent codec",
         "Exhaustive over the small configuration box (every ms of 3 terms), sampled beyond; ~13M evaluations per quick run.",
         "Trusted: the relational tiling auditor and the independent retarget / compact implementations in cmd/c16; stub ledger / contract objects.", "DESIGN.md §3 C16"),
 "C09": ("exploration", "three-way agreement monitor: random $verif kernel-contract programs (get/put/del/scan/event/resource use/nested calls/contract transfers/failures) over growing prior states on a gas-charging chain: pre-execution (no trace) -> signed transaction -> VerifyTx -> DoTx -> state delta == write set and declared outputs -> block replay; tamper oracle over schema-walk mutants of read set / write set / requests / fee / token outputs, re-signed",
         "Runtime oracle over ~1500 programs and ~700 tampered variants per quick run; held on what was explored; one nested-call rollback finding is recorded.",
         "Pre-execution is the engine's real Chain.PreExec (Chain built on the node's components through a verif shim); kernel contracts stand in for wasm/native/EVM contracts (same sandbox, bridge, verification and commit paths).", "DESIGN.md §3 C09"),
 "C10": ("exploration", "reference-model monitor + replay oracle on the real sandbox (XMCache): every program of <= 4 ops (get / put / del of 3 keys, 4 scans) x all 27 backing states exhaustively, random programs (<= 40 ops, 1-3 adjacent buckets + $transient, nil / empty / inverted / adjacent bounds, early stop, two open iterators, writes under an open iterator, Transfer, AddEvent, Flush, RWSet mid-execution) over an in-memory backing and over the real xmodel of simnode nodes (committed + pending $verif transactions: overwritten, deleted, re-created keys); each answer is compared with a 300-line statement model, the read / write set is audited (every influencing key with the version seen, final values, extras classified), and the same calls are re-run over XMReaderFromRWSet alone and must reproduce results and write set; a sample is also driven as a $verif contract through contract.Manager and must match the direct drive",
         "Exhaustive over the <= 4-op x 27-state box (835k programs; <= 5 ops thorough, 22M), sampled beyond; 1.0M programs per quick run.",
         "Trusted: the statement model in cmd/c10/model.go; one tolerance: for a key written while an iterator is open the state at Select time or any later one is accepted. Live keys with empty values cannot exist in the real xmodel (verifyOutputs refuses them).", "DESIGN.md §3 C10"),
 "C11": ("exploration", "reference-model monitor over exhaustively enumerated small universes: the real IdentifyAccount / CheckContractMethodPerm against a decimal-exact model written from the statement (strict and liberal readings; only what both demand is enforced) for every rule assignment x signer list of the boxes (threshold weights, key sets, nested accounts to depth 2 incl. cycles, 27 confusable URI forms, every order of every subset for decimal weights, monotonicity pairs); end to end: every subset of a 13-entry signer menu x every operation touching the XCAccount / XCContract / XCContract2Account buckets (SetAccountAcl, SetMethodAcl, raw bucket writes through $verif, spending, guarded method call) through State.VerifyTx in five phases (pending / confirmed rule changes) against the rules confirmed at the tip",
         "Exhaustive over the enumerated boxes (42M evaluations quick, 1G thorough; 72k / 1M verified transactions), nothing sampled; the boxes are small universes, not all rules.",
         "Trusted: the ~450-line statement model (cmd/c11/model.go), weights compared as the decimals the rule's author wrote; stub AclManager in part A; signature verification itself belongs to C07. Unspecified by the statement and only counted: re-pointing an existing contract->account mapping, the initiator's own signature, malformed URIs.", "DESIGN.md §3 C11"),
 "C19": ("exploration", "reference-model monitor (token-ledger oracle written from the statement: balances, two lock types, lock records) over generated call sequences (Init / Transfer incl. self and fresh accounts / Propose / Vote / Thaw / timer tally / tdpos nominate, vote, revoke / raw Lock and UnLock through a forwarder under the unused caller name $xpos / refused look-alike callers) in two modes: FAST (direct kernel-contract calls over a versioned reader, ~0.9M calls) and END-TO-END (signed transactions -> pool -> PackBlock -> replica replay, real timer transactions, balance queries after every block); conservation, lock deltas only by lock/unlock on that account, transfer guard, caller restriction, panic detection",
         "Runtime oracle over 30 800 sequences per quick run (1.5M thorough); held on what was explored.",
         "Trusted: the model in cmd/c19/model.go. Judged by the letter of the statement: a repeated tdpos revoke (records are read from an older snapshot) releasing another live lock is an unlock operation and only counted; tokens left locked after a closed proposal are only counted.", "DESIGN.md §3 C19"),
 "C20": ("exploration", "codec: round trips over all message types x option subsets x payload classes (in process and after the wire), exhaustive single-bit flips and bursts <= 32 bits on payloads <= 2 kB, sampled on large ones, request->response type map; dispatcher: sequential model check + concurrent Register / UnRegister / Dispatch rounds in child processes under the race detector with an offline exactly-once / at-most-once / never checker over unique message ids",
         "Exhaustive for single-bit flips and bursts on small payloads, sampled elsewhere; concurrent interleavings are those the scheduler produced.",
         "Trusted: CRC32 / snappy libraries; the subscription-table model; race reports count only when both frames lie in dispatcher.go / subscriber.go.", "DESIGN.md §3 C20"),
}
NOT_YET = "check not built yet in this session (work in progress; see DESIGN.md for the planned monitor)"
ALL = ["C%02d" % i for i in range(1, 21)]

def main():
    checks, na = [], []
    for pid in ALL:
        c = CHECKS.get(pid)
        if not c:
            na.append({"property_id": pid, "reason": NOT_YET})
            continue
        cat, tech, text, note, ref = c
        checks.append({
            "property_id": pid,
            "quick_cmd": "bin/check %s quick" % pid,
            "thorough_cmd": "bin/check %s thorough" % pid,
            "evidence_file": "/verif/evidence/%s.json" % pid,
            "replay_cmd_template": "bin/check %s quick --replay {path}" % pid,
            "engine": "harness",
            "level_claimed": {"category": cat, "text": text, "design_ref": ref},
            "level_note": note,
            "technique": tech,
        })
    m = {
        "version": 1,
        "setup_cmd": "bin/setup",
        "hooks": {
            "guard": "verif",
            "enable": "go build -tags verif (bin/check builds every check binary from /repo's working tree through a replace directive)",
            "baseline_off_cmd": BASE,
            "source_commits": ["46bedf2", "830ccff", "fd85b8b", "7781800"],
            "add_only": True,
        },
        "engines": [{"name": "harness", "path": "/verif/harness", "serves_properties": [c["property_id"] for c in checks],
                     "kind_free_text": "Go module (replace => /repo): verifmem storage engine, simnode, generators, auditors, evidence plumbing; one binary per property under cmd/"}],
        "checks": checks,
        "notes": "Technique family: runtime monitoring. Every verdict is 'held on the executions observed'; KNOWN-FINDING lines name defects recorded in known_findings.jsonl; INCONCLUSIVE lines never count as held.",
        "not_applicable": na,
    }
    json.dump(m, open(os.path.join(ROOT, "MANIFEST.json"), "w"), indent=1)
    print("claimed", len(checks), "not claimed", len(na))

main()
