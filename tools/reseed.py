#!/usr/bin/env python3
"""Regression over the seeded changes: for every /verif/seeded/<id> apply its patch to a scratch
worktree of /repo's HEAD and run the checks that meta.json records as catching it (quick tier).
Prints one line per (seed, check): CAUGHT (exit 1 + VIOLATION line), MISSED (exit 0) or OTHER.
usage: tools/reseed.py [-jN] [seed-id ...]      (default: all, one at a time; -j4 runs four seeded changes at a time)
The scratch worktrees live under /tmp/reseed and are removed after use."""
import json, os, subprocess, sys, glob, shutil

ROOT = os.path.dirname(os.path.dirname(os.path.abspath(__file__)))
ENV = dict(os.environ, GOFLAGS="-mod=mod", GOPROXY="off", GOSUMDB="off", GOTOOLCHAIN="local")

def sh(cmd, cwd=None, env=None):
    return subprocess.run(cmd, shell=True, cwd=cwd, env=env or ENV, capture_output=True, text=True, errors="replace")

def one(sid):
    """returns (lines, problems) for one seeded change"""
    lines, bad = [], 0
    d = os.path.join(ROOT, "seeded", sid)
    meta = json.load(open(os.path.join(d, "meta.json")))
    checks = [c for c, v in meta["results"].items() if "caught" in v.lower() and not v.lower().startswith("not caught")]
    wt = "/tmp/reseed/" + sid
    sh("git -C /repo worktree remove --force %s" % wt)
    r = sh("git -C /repo worktree add -q --detach %s HEAD" % wt)
    if r.returncode != 0:
        return ["%s: cannot create worktree: %s" % (sid, r.stderr.strip())], 1
    patch = os.path.join(d, "patch.adapted.diff")
    if not os.path.exists(patch):
        patch = os.path.join(d, "patch.diff")
    r = sh("git apply %s" % patch, cwd=wt)
    if r.returncode != 0:
        r = sh("git apply -3 %s && git reset -q" % patch, cwd=wt)
    if r.returncode != 0:
        lines.append("%s: PATCH DOES NOT APPLY on the current HEAD (%s)" % (sid, r.stderr.strip().splitlines()[-1] if r.stderr.strip() else ""))
        bad += 1
    else:
        for c in checks:
            env = dict(ENV, VERIF_REPO=wt, VERIF_OUT="/tmp/reseed/out-" + sid)
            r = sh("bin/check %s quick" % c, cwd=ROOT, env=env)
            viol = [l for l in r.stdout.splitlines() if l.startswith("VIOLATION")]
            sigs = sorted(set(l.strip()[len("signature: "):] for l in r.stdout.splitlines() if l.strip().startswith("signature:")))
            if r.returncode == 1 and viol:
                verdict = "CAUGHT"
            elif r.returncode == 0:
                verdict = "MISSED"; bad += 1
            else:
                verdict = "OTHER(exit %d)" % r.returncode; bad += 1
            lines.append("%s %s %s %s" % (sid, c, verdict, ";".join(sigs[:3])))
        shutil.rmtree("/tmp/reseed/out-" + sid, ignore_errors=True)
    sh("git -C /repo worktree remove --force %s" % wt)
    return lines, bad

def main():
    args = sys.argv[1:]
    jobs = 1
    if args and args[0].startswith("-j"):
        jobs = int(args[0][2:] or 4); args = args[1:]
    ids = args or sorted(os.path.basename(d) for d in glob.glob(ROOT + "/seeded/*") if os.path.isdir(d))
    os.makedirs("/tmp/reseed", exist_ok=True)
    bad = 0
    from concurrent.futures import ThreadPoolExecutor
    with ThreadPoolExecutor(max_workers=jobs) as ex:
        for lines, b in ex.map(one, ids):
            bad += b
            for l in lines:
                print(l, flush=True)
    sh("git -C /repo worktree prune")
    print("reseed: %d problems" % bad)
    sys.exit(1 if bad else 0)

main()
