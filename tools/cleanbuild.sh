#!/bin/bash
# removes the per-worktree check binaries (VERIF_REPO builds), scratch mod files and race logs from /verif/.build
cd "$(dirname "$0")/../.build" 2>/dev/null || exit 0
ls | grep -E '^c[0-9]{2}\.[0-9a-f]{8}$' | xargs -r rm -f
rm -f go.*.mod go.*.sum *.race.* 2>/dev/null
du -sh .
