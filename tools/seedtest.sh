#!/bin/bash
# usage: tools/seedtest.sh <worktree> <k> <demo-pkg-dir> <test-regex> <seed-id> <check ids...>
# Confirms a seeded change (demo fails with it, passes without it), then runs the named checks
# against the changed worktree. Prints a summary; stores patch + demo under /verif/seeded/<seed-id>/.
set -u
WT=$1; K=$2; PKG=$3; RX=$4; ID=$5; shift 5
export GOFLAGS=-mod=mod GOPROXY=off GOSUMDB=off GOTOOLCHAIN=local
S=$WT/SEED/$K
cd $WT || exit 2
git checkout -q -- . ; git clean -qfd -e SEED
git checkout -q --detach $(git -C /repo rev-parse HEAD)   # seeds are evaluated on top of the current tree
cp $S/demo_test.go $PKG/zz_seed_demo_test.go
go test -vet=off -count=1 -run "$RX" ./$PKG > /tmp/seed_demo_without.txt 2>&1; W0=$?
git apply $S/patch.diff || { echo "PATCH DOES NOT APPLY"; exit 2; }
go build ./bcs/... ./kernel/... ./lib/crypto/... ./lib/cache/... ./lib/logs/... ./lib/utils/... > /tmp/seed_build.txt 2>&1; B=$?
go test -vet=off -count=1 -run "$RX" ./$PKG > /tmp/seed_demo_with.txt 2>&1; W1=$?
rm -f $PKG/zz_seed_demo_test.go
# the existing tests of the touched packages must still pass with the change (the always-failing wasm2c test aside)
TP=$(grep '^+++ b/' $S/patch.diff | sed 's|^+++ b/||; s|/[^/]*$||' | sort -u | sed 's|^|./|' | tr '\n' ' ')
go test -vet=off -count=1 $TP 2>&1 | grep -v "^ok\|no test files" | grep -v "TestStateWorkWithLedger\|wasm2c" | grep "^--- FAIL\|^panic" > /tmp/seed_pkgtests.txt
echo "seed $ID: touched packages [$TP] unexpected test failures: $(grep -c . /tmp/seed_pkgtests.txt) $(grep '^--- FAIL' /tmp/seed_pkgtests.txt | tr '\n' ' ')"
echo "seed $ID: demo without change exit=$W0 (want 0); build with change exit=$B (want 0); demo with change exit=$W1 (want !=0)"
mkdir -p /verif/seeded/$ID
cp $S/patch.diff /verif/seeded/$ID/patch.diff
cp $S/demo_test.go /verif/seeded/$ID/demo_test.go
cp $S/README.md /verif/seeded/$ID/README.agent.md 2>/dev/null
RES=""
for c in "$@"; do
  out=$(cd /verif && VERIF_REPO=$WT VERIF_OUT=/tmp/seedout-$ID bin/check $c quick 2>&1)
  rc=$?
  sigs=$(echo "$out" | grep "signature:" | sed 's/^ *signature: //' | sort -u | head -5 | tr '\n' ';')
  echo "  check $c: exit=$rc sigs=[$sigs]"
  RES="$RES{\"check\":\"$c\",\"exit\":$rc,\"signatures\":\"$(echo $sigs | sed 's/"/\\"/g')\"},"
done
echo "$RES" > /tmp/seed_result_$ID.json
git checkout -q -- . ; git clean -qfd -e SEED
rm -rf /tmp/seedout-$ID
